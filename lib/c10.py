"""C10 - Vary is sufficient: cache-equivalent requests get identical CORS treatment."""
from vlib import Infra
import servelib


def check(c):
    thorough = c.tier == "thorough"
    c.build_driver()
    if thorough:
        servelib.model(c, "VarySufficient VaryPreserved", [("noVaryOrigin", ["VarySufficient"]), ("f5", ["VarySufficient"])], pairs=True)
    else:
        servelib.model(c, "VaryPreserved", [])
        c.negative_twin("CorsMC", servelib.CORS_CFG % dict(bug="f5", pairs="TRUE", invs="VarySufficient", dumpsems="FALSE"),
                        tag="CorsMC_neg_f5", expect=["VarySufficient"], timeout=600)
    # the configurations of one seed are dealt to 4 shards (validated concurrently); thorough: 4 seeds x 4 shards
    shards = []
    for k in range(4 if thorough else 1):
        for i in range(4):
            # (the larger "-big" universe has ~19 000 requests per block: too many ordered pairs; thorough uses more
            #  configurations and seeds instead)
            shards.append(["-mode", "universe", "-configs", "16" if thorough else "10", "-shard", str(i), "-nshards", "4"])
    tot = servelib.run_serve(c, "C10", shards, "two requests agreeing on the Vary-listed headers were treated differently, or a pre-set Vary value was lost")
    if tot["a"] == 0:
        raise Infra("vacuous C10 run: %r" % tot)
    c.cov["distinct_nontrivial"] = tot["b"]
    c.cov["ordered_pairs_in_blocks"] = 2 * tot["b"]
    c.cov["rule"] = ("per (configuration, debug, pre-set Vary or not) block: the structured request universe (Origin / ACRM / ACRH / "
                     "ACRPN absent, nil, zero-length, allowed, other, junk, multi-valued; unrelated headers) is served by the real "
                     "middleware; TraceServe!C10pairsBad quantifies over ALL ordered pairs of a block (same method, agreeing on the "
                     "headers named by the first response's real Vary value) and requires equal status and headers; "
                     "distinct_nontrivial = unordered pairs considered")
