"""C01 - allowed origins are exactly the union of what the configured patterns denote."""
import json
import os

from vlib import Infra, Crash, read_ndjson

RADIX_CFG = """SPECIFICATION Spec
CONSTANTS
  Bug = "%(bug)s"
  MaxLen = %(maxlen)d
  DumpCases = %(dump)s
  Uni = "%(uni)s"
INVARIANTS %(invs)s
CONSTRAINT Dump
CHECK_DEADLOCK FALSE
"""
INVS = "Refines WellFormed ElemsDenoteSame ElemsSubset RebuildSame"
TWINS = ["k0", "splitFlag", "noDot", "wildPortExact", "noWalk"]


def replay(c, u, cs, sm, extra=()):
    """c01gen on one TLC-generated universe; verdict mismatches recorded before a crash of the code under test are kept."""
    try:
        c.run_driver(["c01gen", "-universe", u, "-cases", cs, "-out", sm] + list(extra), timeout=3000)
    except Crash as e:
        # verdict mismatches recorded before the process died are real observations
        part = [json.loads(l) for l in open(sm + ".partial")] if os.path.exists(sm + ".partial") else []
        c.drift.append("the driver died inside the code under test (C17's business): %s" % str(e)[:300])
        if not part:
            if c.pid == "C01":
                raise
            part = []
        return {"mismatches": part, "evaluations": len(part), "nontrivial": 0, "rejected": 0, "elems_drift": 0, "cases": len(part), "samples": []}
    return json.load(open(sm))


def check(c):
    thorough = c.tier == "thorough"
    maxlen = 3 if thorough else 2
    c.build_driver()

    # ---- M + G: model check the radix algorithm against Origins!Allowed and dump every reachable
    #      insertion sequence with the verdict set computed by TLC
    cases = c.path("c01cases.ndjson")
    uni = c.path("c01universe.json")
    cases2 = c.path("c01cases_small.ndjson")
    uni2 = c.path("c01universe_small.json")
    cases3 = c.path("c01cases_ports.ndjson")
    uni3 = c.path("c01universe_ports.json")
    thunks = [
        lambda: c.model_check("RadixMC", RADIX_CFG % dict(bug="none", maxlen=maxlen, dump="TRUE", invs=INVS, uni="full"),
                              tag="RadixMC", env={"OUT_FILE": cases, "UNIVERSE_FILE": uni}, timeout=3000, workers=8),
        # the 32-pattern sub-universe, one insertion deeper (some defects need three or four interacting patterns)
        lambda: c.model_check("RadixMC", RADIX_CFG % dict(bug="none", maxlen=3, dump="TRUE", invs="Refines WellFormed ElemsSubset", uni="small"),
                              tag="RadixMC_small", env={"OUT_FILE": cases2, "UNIVERSE_FILE": uni2}, timeout=3000, workers=8),
        # 48 patterns over 2 hosts x 3 schemes x ports none / 1 / 2 / *: nodes with several schemes and several explicit ports
        lambda: c.model_check("RadixMC", RADIX_CFG % dict(bug="none", maxlen=maxlen, dump="TRUE", invs="Refines WellFormed ElemsSubset", uni="ports"),
                              tag="RadixMC_ports", env={"OUT_FILE": cases3, "UNIVERSE_FILE": uni3}, timeout=3000, workers=8),
    ]
    for bug in TWINS:
        thunks.append(lambda bug=bug: c.negative_twin("RadixMC", RADIX_CFG % dict(bug=bug, maxlen=2, dump="FALSE", invs=INVS, uni="full"),
                                                      tag="RadixMC_neg_" + bug, timeout=600, workers=2))
    c.parallel(thunks, max_workers=3)

    # ---- G: replay all of them through the real middleware
    def gen(u, cs, sm):
        return replay(c, u, cs, sm)

    summ = c.path("c01gen.json")
    s = gen(uni, cases, summ)
    summ2 = c.path("c01gen_small.json")
    s2 = gen(uni2, cases2, summ2)
    s3 = gen(uni3, cases3, c.path("c01gen_ports.json"))
    s["mismatches"] = (s["mismatches"] or []) + (s2["mismatches"] or []) + (s3["mismatches"] or [])
    for f in ("evaluations", "nontrivial", "rejected", "elems_drift", "cases"):
        s[f] += s2[f] + s3[f]
    if s["evaluations"] == 0 or s["rejected"] > 0:
        # by-construction valid patterns were rejected: the replay is (partly) vacuous
        if s["evaluations"] == 0:
            raise Infra("C01 replay evaluated nothing (rejected=%d)" % s["rejected"])
        c.drift.append("%d generated configurations were rejected by NewMiddleware" % s["rejected"])
    for mm in (s["mismatches"] or []):
        c.violation("origin %s: patterns %s: Allowed=%s but ACAO on actual=%s preflight=%s" % (
            mm["origin"], mm["patterns"], mm["expected_allowed"], mm["got_actual"], mm["got_preflight"]),
            {"kind": "gen", "patterns": mm["patterns"], "origin": mm["origin"], "expected": mm["expected_allowed"]})
    if s["elems_drift"]:
        c.drift.append("Config().Origins has a different number of distinct entries than the model's TreeElems in %d cases" % s["elems_drift"])
    c.cov["evaluations"] += s["evaluations"]
    c.cov["distinct_nontrivial"] += s["nontrivial"]
    c.cov["traces_validated_against_impl"] += s["cases"]
    c.cov["samples"] += (s["samples"] or [])[:3]
    c.cov["exhaustive"] = True

    # ---- T: realistic randomised pattern lists and near-miss probes, validated by TLC
    nprobes = 300000 if thorough else 25000
    shard = 30000
    k = 0
    done = 0
    while done < nprobes:
        n = min(shard, nprobes - done)
        trace = c.path("c01rand%d.ndjson" % k)
        rs = c.path("c01rand%d.json" % k)
        c.run_driver(["c01rand", "-trace", trace, "-probes", str(n), "-out", rs],
                     env={"VERIF_SEED": str(c.seed * 1000 + k)})
        r = json.load(open(rs))
        bad, _ = c.validate_trace("TraceOrigins", "TraceOrigins.cfg", trace, tag="TraceOrigins%d" % k)
        if bad:
            evs = read_ndjson(trace)
            for idx in bad[:20]:
                e = evs[idx - 1]
                # recover the pattern list of this probe
                j = idx - 1
                while j >= 0 and evs[j]["ev"] != "Reset":
                    j -= 1
                pats = [x for x in evs[j + 1:idx - 1] if x["ev"] == "Insert"]
                c.violation("origin %s: real verdict actual=%s preflight=%s differs from Origins!Allowed" % (
                    e["raw"], e["acao"], e["pf"]),
                    {"kind": "rand", "origin": e["raw"], "patterns": [
                        {"scheme": p["scheme"], "wild": p["wild"], "host": bytes(p["host"]).decode("latin1"), "port": p["port"]}
                        for p in pats]})
        c.cov["evaluations"] += r["probes"]
        c.cov["distinct_nontrivial"] += r["nontrivial"]
        c.cov["traces_validated_against_impl"] += r["lists"]
        if k == 0:
            c.cov["samples"] += r["samples"][:2]
        if r["rejected"]:
            c.drift.append("random driver: %d by-construction-valid lists rejected" % r["rejected"])
        done += r["probes"]
        k += 1
    c.cov["rule"] = ("G: every insertion sequence of <= %d patterns over the 72-pattern universe of RadixMC.tla and every sequence one longer over a 40-pattern sub-universe (5 hosts) and every sequence of the same length over a 48-pattern one (3 schemes, ports none/1/2/*) "
                     "(hosts sharing suffixes at non-label boundaries) x 84 probe origins, replayed through "
                     "NewMiddleware + GET + preflight with seeded byte/scheme/port concretisation; non-trivial = "
                     ">= 2 distinct patterns. T: seeded realistic lists (1-30 patterns, families sharing suffixes, "
                     "IP literals, trailing dots, 253-byte hosts, :*, *.) x the near-misses named by the quantifier; "
                     "verdicts decided by Origins!Allowed in TLC; non-trivial = lists with >= 2 patterns") % maxlen
    c.assumptions += [
        "ACAO == Origin on a GET and on a preflight (ACRM: GET) is the observable of 'treated as allowed'",
        "concretisation maps abstract bytes injectively to lower-case letters; '.' is kept",
    ]
