"""C14 - requested-header lists: sound for any bytes, complete for browsers."""
import json

from vlib import Infra, read_ndjson

MC = """SPECIFICATION Spec
CONSTANTS
  MaxOWS = 1
  MaxEmpty = 2
  ABug = "%(bug)s"
  MaxLines = %(lines)d
  MaxBytes = %(bytes)d
  DumpCases = %(dump)s
INVARIANTS Equiv AllInBounds Sound BrowserComplete
CONSTRAINT Dump
CHECK_DEADLOCK FALSE
"""


def check(c):
    thorough = c.tier == "thorough"
    c.build_driver()
    cases = c.path("acrhcases.ndjson")
    nl, nb = (3, 6) if thorough else (2, 5)
    c.model_check("AcrhMC", MC % dict(bug="none", lines=nl, bytes=nb, dump="TRUE"), tag="AcrhMC", env={"OUT_FILE": cases}, timeout=3000)
    for bug in ("shortWindow", "trimTolerant", "resetPerLine"):
        c.negative_twin("AcrhMC", MC % dict(bug=bug, lines=2, bytes=4, dump="FALSE"), tag="AcrhMC_neg_" + bug)
    summ = c.path("c14gen.json")
    c.run_driver(["c14gen", "-cases", cases, "-out", summ], timeout=3000)
    s = json.load(open(summ))
    for mm in (s["mismatches"] or []):
        c.violation("ACRH lines %r with allowed-set bits %d: Acrh!Approved=%s but the real middleware %s (reflected=%s)" % (
            mm["lines"], mm["set"], mm["expected"], "approved" if mm["got"] else "refused", mm["reflected"]), mm)
    if s["approved"] == 0 or s["approved"] == s["evaluations"]:
        raise Infra("vacuous C14 replay")
    c.cov["evaluations"] += s["evaluations"]
    c.cov["distinct_nontrivial"] += s["nontrivial"]
    c.cov["traces_validated_against_impl"] += s["cases"]
    c.cov["samples"] += (s["samples"] or [])[:2]
    c.cov["exhaustive"] = True
    n = 400000 if thorough else 24000
    shard = 50000
    done = k = 0
    while done < n:
        trace = c.path("c14_%d.ndjson" % k)
        rs = c.path("c14_%d.json" % k)
        c.run_driver(["c14rand", "-trace", trace, "-n", str(min(shard, n - done)), "-out", rs], env={"VERIF_SEED": str(c.seed * 1000 + k)})
        r = json.load(open(rs))
        bad, res = c.validate_trace("TraceAcrh", "TraceAcrh.cfg", trace, tag="TraceAcrh_%d" % k, timeout=3000)
        if bad:
            evs = read_ndjson(trace)
            for idx, why in bad[:30]:
                e = evs[idx - 1]
                j = idx - 1
                while evs[j]["ev"] != "Set":
                    j -= 1
                c.violation("%s: allowed %r, field lines %r" % (why, evs[j]["spelled"], e["raw"]), {"why": why, "allowed": evs[j]["spelled"], "lines": e["raw"], "approved": e["ok"]})
        if res["stats"]["approved"] == 0 or res["stats"]["refused"] == 0:
            raise Infra("vacuous C14 random shard: %r" % res["stats"])
        c.cov["evaluations"] += r["inputs"]
        c.cov["distinct_nontrivial"] += res["stats"]["approved"]
        c.cov["traces_validated_against_impl"] += r["sets"]
        if k == 0:
            c.cov["samples"] += r["samples"][:2]
        done += r["inputs"]
        k += 1
    c.cov["rule"] = ("G: every non-empty allowed-name set over {a,b,ab,ba} x every sequence of <= %d field lines / <= %d bytes over "
                     "{a,b,',',SP,TAB} (all reachable states of AcrhMC.tla, where the windowed scanner model is checked equal to the "
                     "declarative meaning) replayed through the public API and compared with Acrh!ApprovedWith(1, 16) computed by TLC. "
                     "T: seeded name sets (incl. prefixes/extensions, a 58-byte name) x lists around the cut-offs (longest name + padding "
                     "+ comma, 0-3 OWS bytes per side, 0-20 empties, 1-4 lines, unsorted/repeated names, junk), judged by Acrh!Approved in "
                     "TLC; non-trivial = inputs of >= 3 bytes (G) / approved inputs (T)") % (nl, nb)
