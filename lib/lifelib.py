"""Shared by the life-cycle properties C06 / C08 / C09 / C12: traces validated by TraceLifecycle.tla."""
import json

import os

from vlib import Infra, Crash, read_ndjson

LIFE_CFG = """SPECIFICATION Spec
CONSTANTS
  Nil = "nil"
  MBug = "none"
  RequireDistinct = %s
INVARIANT Final
CHECK_DEADLOCK FALSE
"""
MW_CFG = """SPECIFICATION Spec
CONSTANTS
  Cfgs = {"A", "B"}
  Nil = "nil"
  Invalid = "invalid"
  Reqs = {%(reqs)s}
  Writers = {%(writers)s}
  MBug = "%(bug)s"
INVARIANTS %(invs)s
%(props)s
CHECK_DEADLOCK FALSE
"""


def mw_model(c, invs, props, twins, reqs='"r1", "r2"', writers='"w1", "w2"'):
    pl = ("PROPERTIES " + props) if props else ""
    acts = ["ReqStart", "ReqSnap", "ReqHeader", "ReqEmit", "WStart", "ReconfValidate", "ReconfCommit", "SetDebug", "ConfigSnap", "ConfigRender"]
    thunks = [lambda: c.model_check("Middleware", MW_CFG % dict(reqs=reqs, writers=writers, bug="none", invs=invs, props=pl),
                                    tag="Middleware_" + c.pid, workers=8, must_cover=acts)]
    for bug, expect in twins:
        thunks.append(lambda bug=bug, expect=expect: c.negative_twin(
            "Middleware", MW_CFG % dict(reqs=reqs, writers=writers, bug=bug, invs=invs, props=pl),
            tag="Middleware_neg_" + bug, expect=expect, workers=4))
    c.parallel(thunks)


LOCK_CFG = """SPECIFICATION %(spec)s
CONSTANTS
  Cfgs = {%(cfgs)s}
  Nil = "nil"
  Invalid = "invalid"
  Reqs = {"r1", "r2"}
  Writers = {%(writers)s}
  Host = "r1"
  Nested = {"w2"}
  MBug = "none"
  LBug = "%(bug)s"
%(checks)s
CHECK_DEADLOCK TRUE
"""
LOCK_SAFETY = ("INVARIANTS TypeOK MutualExclusion LockFreeOutside HoldsWhereItShould PassthroughHasDebugOff AbsAtomic AbsConfigAtomic\n"
               "PROPERTIES Refinement")


def lock_model(c):
    """MwLock.tla: the RWMutex made explicit, calls made by the wrapped handler included. The positive run must establish that it
    REFINES Middleware.tla, keeps no lock across an outside interaction, cannot deadlock and (under weak fairness) that every
    started call returns; three lock-level twins must be rejected, each for its own reason."""
    acts = ["ReqStart", "WStart", "ReadLock", "ReadState", "ReadUnlock", "ReqHeader", "ReqEmit", "ConfigRender", "ReconfValidate",
            "WriteAnnounce", "WriteAcquire", "WriteState", "WriteUnlock"]
    mk = lambda bug, checks=LOCK_SAFETY, spec="Spec", cfgs='"A", "B"', writers='"w1", "w2"': LOCK_CFG % dict(
        bug=bug, checks=checks, spec=spec, cfgs=cfgs, writers=writers)
    big = []
    if c.tier == "thorough" and c.pid == "C07":
        # a third, free writer next to the nested one (the recursive-read-lock constellation): 13 782 726 distinct states, 8 min at 8 workers
        big = [lambda: c.model_check("MwLock", mk("none", writers='"w1", "w2", "w3"'), tag="MwLock_3writers", workers=8, timeout=3000)]
    c.parallel(big + [
        lambda: c.model_check("MwLock", mk("none"), tag="MwLock_" + c.pid, workers=6, must_cover=acts),
        lambda: c.model_check("MwLock", mk("none", "PROPERTIES Termination", "FairSpec", '"A"'), tag="MwLock_live_" + c.pid, workers=4),
        lambda: c.negative_twin("MwLock", mk("holdAcross"), tag="MwLock_neg_holdAcross", expect=["LockFreeOutside"], workers=2),
        lambda: c.negative_twin("MwLock", mk("holdAcross", LOCK_SAFETY.replace("LockFreeOutside ", "")), tag="MwLock_neg_holdAcross_deadlock",
                                expect=["deadlock"], workers=2),
        lambda: c.negative_twin("MwLock", mk("checkThenAct", LOCK_SAFETY.replace("PassthroughHasDebugOff ", "")),
                                tag="MwLock_neg_checkThenAct", expect=["refinement:Middleware"], workers=2),
    ])


def lock_inductive(c):
    """MwLockInductive.tla with Apalache: the lock discipline as an INDUCTIVE invariant - four threads, any number of calls each, any
    history (threads return to idle and call again, which the bounded TLC configurations do not explore); the deferred-RUnlock twin
    must make it non-inductive."""
    base = ["--cinit=ConstInit", "--inv=IndInv"]
    c.apalache("MwLockInductive", base + ["--init=Init", "--length=0"], tag="MwLockInductive_init")
    c.apalache("MwLockInductive", base + ["--init=IndInit", "--length=1"], tag="MwLockInductive_step")
    c.apalache("MwLockInductive", ["--cinit=ConstInit", "--inv=Outside", "--init=IndInit", "--length=0"], tag="MwLockInductive_outside")
    c.apalache("MwLockInductive", base + ["--init=IndInit", "--next=NextHold", "--length=1"], expect_error=True, tag="MwLockInductive_twin_hold")


def segment(evs, idx):
    j = idx - 1
    while j > 0 and evs[j]["ev"] != "Reset":
        j -= 1
    out = []
    for e in evs[j:idx]:
        if e["ev"] == "Observe":
            out.append("Observe(%s)=%s" % (e["mw"], e["fp"][:6]))
        elif e["ev"] in ("New", "Reconf"):
            out.append("%s(%s,%s)%s" % (e["ev"], e["mw"], e["cfg"], "" if e["ok"] else "!err"))
        elif e["ev"] == "SetDebug":
            out.append("SetDebug(%s,%s)" % (e["mw"], e["b"]))
        elif e["ev"] == "Zero":
            out.append("Zero(%s)" % e["mw"])
        elif e["ev"] in ("Stutter",):
            out.append("[" + e["what"][:60] + "]")
        elif e["ev"] == "Hang":
            out.append("HANG(%s): %s" % (e["mw"], e["what"]))
        elif e["ev"] == "Note":
            out.append("note=" + json.dumps({k: v for k, v in e.items() if k != "ev"})[:600])
    return out


def run_life(c, args_list, what, need_observable=False):
    tot = {"cases": 0, "observations": 0, "compared": 0, "weak": 0, "debugOn": 0, "segments": 0}

    def one(k, args):
        trace = c.path("life_%d.ndjson" % k)
        summ = c.path("life_%d.json" % k)
        try:
            c.run_driver(["life", "-trace", trace, "-out", summ] + args, env={"VERIF_SEED": str(c.seed * 1000 + k)}, timeout=3000)
            s = json.load(open(summ))
        except Crash as e:
            # the process died inside the code under test (a Go fatal error cannot be recovered): that is C17's business; what was
            # recorded before is still judged (the trace is cut at its last complete line)
            if c.pid == "C17":
                raise
            c.drift.append("the life-cycle driver died inside the code under test (C17's business): %s" % str(e)[:300])
            data = open(trace, "rb").read() if os.path.exists(trace) else b""
            data = data[:data.rfind(b"\n") + 1]
            if data.count(b"\n") < 10:
                raise Infra("the life-cycle driver died before recording anything: %s" % str(e)[:300])
            with open(trace, "wb") as f:
                f.write(data)
            s = {"cases": data.count(b'"ev":"Reset"'), "probes_per_observation": 0, "samples": []}
        bad, res = c.validate_trace("TraceLifecycle", LIFE_CFG % ("TRUE" if need_observable else "FALSE"), trace,
                                    tag="TraceLifecycle_%d" % k, timeout=3000)
        evs = read_ndjson(trace) if bad else None
        if s.get("hung") and not bad:
            raise Infra("the life-cycle driver stopped early: a call into the library never returned")
        return k, s, bad, res, evs

    for k, s, bad, res, evs in c.parallel([lambda k=k, a=a: one(k, a) for k, a in enumerate(args_list)], max_workers=4):
        if bad:
            seen = set()
            for idx, why in bad[:40]:
                hist = segment(evs, idx)
                key = (why, tuple(hist[-6:]))
                if key in seen:
                    continue
                seen.add(key)
                c.violation("%s: %s; history: %s" % (what, why, " ; ".join(hist[-14:])),
                            {"why": why, "history": hist, "event": evs[idx - 1]})
        tot["cases"] += s["cases"]
        for f in ("observations", "compared", "weak", "debugOn", "segments"):
            tot[f] += res["stats"][f]
        if k == 0:
            c.cov["samples"] += (s.get("samples") or [])[:2]
            c.cov["probes_per_observation"] = s["probes_per_observation"]
    if tot["compared"] == 0:
        raise Infra("vacuous life-cycle run: %r" % tot)
    c.cov["evaluations"] += tot["observations"]
    c.cov["distinct_nontrivial"] += tot["compared"]
    c.cov["traces_validated_against_impl"] += tot["segments"]
    c.cov["observations_with_debug_on"] = tot["debugOn"]
    return tot
