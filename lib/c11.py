"""C11 - preflights are answered by the middleware alone; everything else passes intact."""
from vlib import Infra
import servelib


def check(c):
    thorough = c.tier == "thorough"
    c.build_driver()
    servelib.model(c, "DispatchRule OnlyDocumentedEdits", [])
    # a request must be ANSWERED - also when its handler calls methods of its own middleware: MwLock.tla (no lock held across the
    # handler, deadlock freedom, termination under fairness; the twin that defers RUnlock deadlocks)
    import lifelib
    lifelib.lock_model(c)
    n = 4 if thorough else 1
    shards = [["-mode", "universe", "-configs", "12" if thorough else "9"] + (["-big"] if thorough else []) for _ in range(n)]
    tot = servelib.run_serve(c, "C11", shards, "dispatch / pass-through violated", conform=True)
    # ... also while Reconfigure / SetDebug / Config run (S): a request must still be answered by the middleware or reach the
    # handler - in the request x writer scenarios under every schedule, a panic or a blocked thread is a C11 violation
    import json
    import conclib
    c.instrument_mutexes()
    gated = c.build_driver(tags=["verifgates"], name="driver_gates")
    t4, s4 = c.path("c11sched.ndjson"), c.path("c11sched.json")
    c.run_driver(["c07", "-trace", t4, "-out", s4, "-limit", "1000" if thorough else "200", "-scenarios", "40" if thorough else "22"], driver=gated)
    conclib.validate(c, t4, "TraceMiddleware_c11", only=lambda why, sched: "panic" in why or "blocked" in why)
    c.cov["scheduled_executions"] = json.load(open(s4))["schedules"]
    if tot["a"] == 0 or tot["b"] == 0:
        raise Infra("vacuous C11 run: %r" % tot)
    c.cov["distinct_nontrivial"] = tot["a"] + tot["b"]
    c.cov["answered_by_middleware"] = tot["a"]
    c.cov["passed_to_handler"] = tot["b"]
    c.cov["rule"] = ("configuration kinds incl. both passthrough forms x debug x structured request universe (method x presence / "
                     "emptiness / zero-length / multiplicity of Origin and ACRM, ...) x 5 (pre-set headers, inner handler) variants; "
                     "spy handler records invocation count, request/writer identity, header map on entry and exit; judged by "
                     "TraceServe!C11ok in TLC; non-trivial = all served requests")
