"""C13 - origin-pattern grammar: documented forms accepted, documented non-forms rejected."""
import json

from vlib import Infra, read_ndjson

MC = """SPECIFICATION Spec
CONSTANT DumpCases = TRUE
INVARIANTS GoodIsValid DefectIsInvalid
CONSTRAINT Dump
CHECK_DEADLOCK FALSE
"""


PP = """SPECIFICATION Spec
CONSTANTS
  PBug = "%s"
  MaxTail = %d
  DumpCases = %s
INVARIANT GrammarMeansScanner
CONSTRAINT Dump
CHECK_DEADLOCK FALSE
"""


def bytelevel(c, thorough):
    """M + G at byte level: the documented grammar (declarative) equals the scanner model on every short byte string, and every such
    string is given to the real NewMiddleware."""
    pcases = c.path("patparse.ndjson")
    c.model_check("PatParseMC", PP % ("none", 6 if thorough else 5, "TRUE"), tag="PatParseMC", env={"OUT_FILE": pcases}, workers=8, timeout=3000)
    for bug in ("noDefaultPort", "starPortJunk"):
        c.negative_twin("PatParseMC", PP % (bug, 5, "FALSE"), tag="PatParseMC_neg_" + bug, workers=4)
    psum = c.path("c13gen.json")
    c.run_driver(["c13gen", "-cases", pcases, "-out", psum], timeout=3000)
    ps = json.load(open(psum))
    for v in (ps["violations"] or []):
        c.violation("%s: %r" % (v["why"], v["pattern"]), v)
    if ps["drift"]:
        c.drift.append("PatParse.tla differs from the real ParsePattern on %d of %d byte strings, e.g. %s" % (ps["drift"], ps["cases"], json.dumps(ps["drifts"][:2])))
    if ps["accepted"] == 0:
        raise Infra("vacuous PatParse replay")
    with c.lock:
        c.cov["patparse_strings_replayed"] = ps["cases"]
        c.cov["patparse_accepted"] = ps["accepted"]
        c.cov["evaluations"] += ps["cases"]
        c.cov["distinct_nontrivial"] += ps["judged"]


def check(c):
    thorough = c.tier == "thorough"
    c.build_driver()
    cases = c.path("patterns.ndjson")
    c.parallel([lambda: bytelevel(c, thorough),
                lambda: c.model_check("PatternMC", MC, tag="PatternMC", env={"OUT_FILE": cases}, workers=4)], max_workers=2)
    tot = {"valid": 0, "invalid": 0, "grey": 0, "selfmatched": 0, "cand": 0}
    for k in range(3 if thorough else 1):
        trace = c.path("c13_%d.ndjson" % k)
        summ = c.path("c13_%d.json" % k)
        c.run_driver(["c13", "-cases", cases, "-trace", trace, "-out", summ, "-stride", "1" if thorough else "2"],
                     env={"VERIF_SEED": str(c.seed * 1000 + k)})
        s = json.load(open(summ))
        bad, res = c.validate_trace("TracePattern", "TracePattern.cfg", trace, tag="TracePattern_%d" % k, timeout=3000)
        if bad:
            evs = read_ndjson(trace)
            seen = set()
            for idx, why in bad[:80]:
                e = evs[idx - 1]
                key = (why, json.dumps(e["c"], sort_keys=True))
                if key in seen:
                    continue
                seen.add(key)
                c.violation("%s: %s (len %d) components %s -> accepted=%s errtype=%s valueok=%s self=%s/%s" % (
                    why, e["s"], e["len"], json.dumps(e["c"]), e["accepted"], e["errtype"], e["valueok"], e["self"], e["selfpf"]),
                    {"why": why, "pattern_display": e["s"], "length": e["len"], "components": e["c"], "accepted": e["accepted"]})
        for f in ("valid", "invalid", "grey", "selfmatched"):
            tot[f] += res["stats"][f]
        tot["cand"] += s["candidates"]
        if k == 0:
            c.cov["samples"] += (s["samples"] or [])[:3]
    if tot["valid"] == 0 or tot["invalid"] == 0 or tot["selfmatched"] == 0:
        raise Infra("vacuous C13 run: %r" % tot)
    c.cov["evaluations"] += tot["cand"]
    c.cov["distinct_nontrivial"] += tot["valid"] + tot["invalid"]
    c.cov["traces_validated_against_impl"] += tot["cand"]
    c.cov["judged_valid"] = tot["valid"]
    c.cov["judged_single_defect"] = tot["invalid"]
    c.cov["grey_zone_not_judged"] = tot["grey"]
    c.cov["exhaustive"] = thorough
    c.cov["rule"] = ("every by-construction-valid component combination of PatternMC.tla (schemes http/https/custom of 1,2,10,63,64 bytes; "
                     "domains of 1,11,63,64,250-253 bytes with 63-byte labels, +- trailing dot; Punycode; localhost; IPv4; short and full "
                     "IPv6; no port / 1 / 8080 / 65535 / non-default 80 or 443 / *; with and without leading *.) - i.e. including every "
                     "length maximum at once - and every single-defect mutation of each (38.5k candidates; every 2nd in the quick tier), "
                     "built byte for byte from the components with seeded filler; judged by Pattern!Valid/Judged/MustSelfMatch in TLC. "
                     "Byte level: every string of <= %d bytes over {a,1,0,-,.,*,:} after h:// / http:// / https:// (PatParseMC: the "
                     "documented grammar, declaratively, equals the scanner model) given to the real NewMiddleware" % (6 if thorough else 5))
