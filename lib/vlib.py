"""Shared machinery of the /verif checks (see DESIGN.md section 6).

A check
  1. copies /repo's CURRENT WORKING TREE to a scratch directory (never builds from a snapshot),
  2. builds the Go driver (/verif/harness) against that copy,
  3. runs TLC on the model-level configurations (positive + negative twins) and generators,
  4. runs the driver (replay of TLC-generated cases, seeded randomised drivers),
  5. lets TLC validate the recorded traces,
  6. classifies offending events against known_findings.json, writes evidence/<id>.json,
     prints KNOWN-FINDING / VIOLATION lines and removes the scratch directory.

Exit codes: 0 property held on everything explored; 1 violation (with a VIOLATION line);
2 infrastructure failure (build error, TLC crash, time-out, vacuous run) - never a verdict.
"""
import json
import os
import re
import shutil
import subprocess
import sys
import tempfile
import threading
import time

VERIF = os.path.dirname(os.path.dirname(os.path.abspath(__file__)))
REPO = os.environ.get("VERIF_REPO", "/repo")
SPEC = os.path.join(VERIF, "spec")
HARNESS = os.path.join(VERIF, "harness")
EVID = os.environ.get("VERIF_EVIDENCE", os.path.join(VERIF, "evidence"))   # mutant runs point this elsewhere
REPLAY = os.path.join(EVID, "replay")
NCPU = os.cpu_count() or 4

GOENV = {
    "GOFLAGS": "-mod=mod",
    "GOPROXY": "off",
    "GOSUMDB": "off",
    "GOTOOLCHAIN": "local",
}


class Infra(Exception):
    """Infrastructure failure: exit 2, never a verdict."""


class Crash(Infra):
    """The driver process died with a Go FATAL error raised inside the code under test (stack overflow, concurrent map
    write, ...): not recoverable by recover(). C17 turns it into a violation; other checks report it as infrastructure failure
    unless they had already recorded real verdict mismatches."""

    def __init__(self, msg, stderr):
        Infra.__init__(self, msg)
        self.stderr = stderr


class TLCResult:
    def __init__(self, out, rc, wall):
        self.out = out
        self.rc = rc
        self.wall = wall
        m = re.findall(r"(\d[\d,]*) states generated, (\d[\d,]*) distinct states found", out)
        self.generated = int(m[-1][0].replace(",", "")) if m else 0
        self.distinct = int(m[-1][1].replace(",", "")) if m else 0
        self.violated = re.findall(r"Error: Invariant (\w+) is violated", out)
        self.violated += re.findall(r"Error: Action property (\w+) is violated", out)
        if re.search(r"Error: Temporal properties were violated", out):
            self.violated.append("temporal")
        # a property of an instantiated module (refinement: PROPERTY MW!Spec) is reported by position, not by name
        self.violated += ["refinement:" + m for m in re.findall(r"Error: Action property line \d+, col \d+ to line \d+, col \d+ of module (\w+) is violated", out)]
        if "Error: Deadlock reached." in out:
            self.violated.append("deadlock")
        self.post_failed = bool(re.search(r"POSTCONDITION|Post-?condition .* (violated|false)", out)) and "Error" in out
        self.no_error = "Model checking completed. No error has been found." in out
        # per-action counts printed with -coverage: <Name line .. of module M>: distinct:generated
        self.actions = {}
        for m2 in re.finditer(r"^<(\w+) line \d+, col \d+ to line \d+, col \d+ of module (\w+)>: (\d+):(\d+)", out, re.M):
            self.actions[m2.group(1)] = max(self.actions.get(m2.group(1), 0), int(m2.group(4)))
        self.other_errors = [
            ln for ln in out.splitlines()
            if ln.startswith("Error:") and "is violated" not in ln and "Temporal properties" not in ln and "Deadlock reached" not in ln
        ]

    def printed(self, tag):
        """Values printed with PrintT(<<tag, ...>>) - returns the raw text after the tag."""
        res = []
        for ln in self.out.splitlines():
            m = re.match(r'^<<"%s", (.*)>>$' % re.escape(tag), ln.strip())
            if m:
                res.append(m.group(1))
        return res


class Check:
    def __init__(self, pid, level="model_checking"):
        self.pid = pid
        self.level = level
        self.tier = os.environ.get("VERIF_TIER", "quick")
        try:
            self.seed = int(os.environ.get("VERIF_SEED", "1"))
        except ValueError:
            self.seed = 1
        self.t0 = time.time()
        self.scratch = tempfile.mkdtemp(prefix="verif-%s-" % pid)
        self.specdir = os.path.join(self.scratch, "spec")
        shutil.copytree(SPEC, self.specdir)
        self.violations = []     # dicts: {what, replay(dict)}
        self.known = []          # strings
        self.drift = []          # strings (MODEL-DRIFT, never a verdict)
        self.cov = {
            "states": 0, "transitions": 0, "traces_validated_against_impl": 0,
            "evaluations": 0, "distinct_nontrivial": 0, "samples": [],
            "rule": "", "model_runs": [], "negative_twins": [], "checker_cmd": "",
        }
        self.assumptions = []
        self.driver = None
        self.repo_copy = None
        self.findings = load_findings()
        self.lock = threading.Lock()

    # ------------------------------------------------------------ scratch / build
    def path(self, *p):
        return os.path.join(self.scratch, *p)

    def copy_repo(self):
        if self.repo_copy:
            return self.repo_copy
        dst = self.path("repo")
        subprocess.run(["rsync", "-a", "--exclude", ".git", REPO + "/", dst + "/"], check=True)
        self.repo_copy = dst
        return dst

    def instrument_mutexes(self):
        """Check-time instrumentation (DESIGN.md 6.2): in the scratch copy every sync.(RW)Mutex used by the
        library is retyped to a wrapper that turns lock operations into scheduler gates. /repo is untouched.
        Returns the number of files rewritten (0: the tree uses no sync mutex - only the uninstrumented gates apply)."""
        repo = self.copy_repo()
        zdir = os.path.join(repo, "zzvsync")
        os.makedirs(zdir, exist_ok=True)
        shutil.copy(os.path.join(HARNESS, "gates", "zzvsync.go.txt"), os.path.join(zdir, "zzvsync.go"))
        n = 0
        for root, dirs, files in os.walk(repo):
            if root.startswith(zdir):
                continue
            for fn in files:
                if not fn.endswith(".go") or fn.endswith("_test.go"):
                    continue
                path = os.path.join(root, fn)
                src = open(path).read()
                ATOMICS = r"\batomic\.(Pointer\[|Bool\b|Value\b|Int32\b|Int64\b|Uint32\b|Uint64\b)"
                if not re.search(r"\bsync\.(RW)?Mutex\b", src) and not re.search(ATOMICS, src):
                    continue
                new = re.sub(r"\bsync\.RWMutex\b", "zzvsync.RWMutex", src)
                new = re.sub(r"\bsync\.Mutex\b", "zzvsync.Mutex", new)
                # typed atomics (lock-free snapshots, flags, caches) become gates too
                uses_atomic = re.search(ATOMICS, new) is not None
                new = re.sub(ATOMICS, lambda mo: "zzvsync." + mo.group(1), new)
                imp = '\t"github.com/jub0bs/cors/zzvsync"\n'
                if "import (" in new:
                    new = new.replace("import (\n", "import (\n" + imp, 1)
                else:
                    new = re.sub(r'(?m)^import\s+("[^"]+")\s*$', lambda mo: 'import (\n\t%s\n%s)' % (mo.group(1), imp), new, count=1)
                if re.search(r'(?m)^\s*"sync"\s*$|^import\s+"sync"', src):
                    new += "\nvar _ sync.Locker // keeps the sync import used\n"
                if uses_atomic:
                    new += "\nvar _ atomic.Bool // keeps the sync/atomic import used\n"
                open(path, "w").write(new)
                n += 1
        self.cov["instrumented_files"] = n
        return n

    def build_driver(self, race=False, name="driver", tags=None):
        repo = self.copy_repo()
        hdir = self.path("harness")
        if not os.path.isdir(hdir):
            shutil.copytree(HARNESS, hdir, ignore=shutil.ignore_patterns("go.mod", "go.sum", "driver"))
            with open(os.path.join(hdir, "go.mod"), "w") as f:
                f.write("module verifharness\n\ngo 1.23.0\n\nrequire github.com/jub0bs/cors v0.0.0\n\n"
                        "replace github.com/jub0bs/cors => %s\n" % repo)
            shutil.copy(os.path.join(repo, "go.sum"), os.path.join(hdir, "go.sum"))
        out = self.path(name)
        cmd = ["go", "build", "-o", out]
        if race:
            cmd.append("-race")
        if tags:
            cmd += ["-tags", ",".join(tags)]
        if os.environ.get("VERIF_COVER") and not race and not tags:
            # development aid (bin/coverage): which statements of the library do the drivers execute at all?
            cmd += ["-cover", "-coverpkg=./...,github.com/jub0bs/cors/..."]
        cmd.append(".")
        env = dict(os.environ, **GOENV)
        env["GOCACHE"] = os.environ.get("GOCACHE", os.path.expanduser("~/.cache/go-build"))
        p = subprocess.run(cmd, cwd=hdir, env=env, capture_output=True, text=True)
        if p.returncode != 0:
            raise Infra("driver build failed:\n" + p.stdout + p.stderr)
        if not race and not tags:
            self.driver = out
        return out

    def run_driver(self, args, timeout=1800, driver=None, env=None, ok_codes=(0,)):
        e = dict(os.environ)
        e["VERIF_SEED"] = str(self.seed)
        if env:
            e.update(env)
        if os.environ.get("VERIF_COVER"):
            e["GOCOVERDIR"] = os.environ["VERIF_COVER"]
        def limit():
            # a runaway recursion / allocation loop in the code under test must end as a Go fatal error, not as an OOM kill
            import resource
            resource.setrlimit(resource.RLIMIT_AS, (24 << 30, 24 << 30))
        try:
            p = subprocess.run([driver or self.driver] + args, env=e, capture_output=True, text=True,
                               timeout=timeout, cwd=self.scratch, preexec_fn=limit)
        except subprocess.TimeoutExpired:
            raise Infra("driver timed out: %s" % " ".join(args))
        if p.returncode not in ok_codes:
            # an unrecovered Go panic also exits with status 2: it is a crash of the code under test when the panicking goroutine
            # was inside the library (a library frame comes before the first frame of the harness)
            perr = p.stderr
            if "fatal error:" not in perr and "panic:" in perr:
                tr = perr[perr.index("panic:"):]
                i_lib, i_main = tr.find("github.com/jub0bs/cors"), tr.find("main.")
                if i_lib >= 0 and (i_main < 0 or i_lib < i_main):
                    frames = [ln.strip() for ln in tr.splitlines() if "jub0bs/cors" in ln][:6]
                    raise Crash("driver %s died inside the code under test: %s | %s" % (args[0], tr.splitlines()[0][:300], " <- ".join(frames)), perr[:20000])
            if "fatal error:" in p.stderr and ("jub0bs/cors" in p.stderr):
                head = p.stderr[p.stderr.index("fatal error:"):][:300]
                frames = [ln.strip() for ln in p.stderr.splitlines() if "jub0bs/cors" in ln][:6]
                raise Crash("driver %s died inside the code under test: %s | %s" % (args[0], head.splitlines()[0], " <- ".join(frames)), p.stderr[:20000])
            raise Infra("driver %s exited %d:\n%s%s" % (args[0], p.returncode, p.stdout[-4000:], p.stderr[-4000:]))
        return p

    # ------------------------------------------------------------ TLC
    def tlc(self, module, cfg, env=None, workers=None, timeout=900, extra=None, tag=None, simulate=None):
        """Run TLC on spec/<module>.tla with configuration text or file name `cfg`."""
        tag = tag or module
        cfgpath = os.path.join(self.specdir, tag + ".run.cfg")
        if "\n" in cfg or cfg.startswith("SPECIFICATION") or cfg.startswith("INIT"):
            with open(cfgpath, "w") as f:
                f.write(cfg)
        else:
            shutil.copy(os.path.join(self.specdir, cfg), cfgpath)
        md = tempfile.mkdtemp(prefix="md-", dir=self.scratch)
        cmd = ["timeout", str(timeout), "tlc", "-workers", str(workers or NCPU), "-metadir", md,
               "-config", cfgpath]
        if simulate:
            cmd += ["-simulate", simulate]
        if extra:
            cmd += extra
        cmd.append(module + ".tla")
        e = dict(os.environ)
        jtmp = os.path.join(self.scratch, "jtmp")
        os.makedirs(jtmp, exist_ok=True)
        # TLC unpacks its standard modules into java.io.tmpdir and never removes them: keep that inside the scratch directory
        e["JAVA_TOOL_OPTIONS"] = (e.get("JAVA_TOOL_OPTIONS", "-Xss256m") + " -Djava.io.tmpdir=" + jtmp).strip()
        if env:
            e.update({k: str(v) for k, v in env.items()})
        t0 = time.time()
        p = subprocess.run(cmd, cwd=self.specdir, env=e, capture_output=True, text=True)
        wall = time.time() - t0
        shutil.rmtree(md, ignore_errors=True)
        res = TLCResult(p.stdout + p.stderr, p.returncode, wall)
        if p.returncode == 124:
            raise Infra("TLC timed out after %ds on %s" % (timeout, tag))
        self.cov["checker_cmd"] = "tlc -workers N -config <cfg> %s.tla" % module
        return res

    def model_check(self, module, cfg, tag=None, invariants=None, must_cover=None, **kw):
        """Positive model-level run: must complete with no error. must_cover: action names that must have been taken
        (the run is then made with -coverage 1; an action never taken means the invariants were never exercised there)."""
        if must_cover:
            kw["extra"] = (kw.get("extra") or []) + ["-coverage", "1"]
        r = self.tlc(module, cfg, tag=tag, **kw)
        if must_cover:
            dead = [a for a in must_cover if r.actions.get(a, 0) == 0]
            if dead:
                raise Infra("model-level run %s never takes action(s) %s - vacuous" % (tag or module, dead))
            with self.lock:
                self.cov.setdefault("action_coverage", {})[tag or module] = {a: r.actions.get(a, 0) for a in must_cover}
        if r.violated:
            # the MODEL violates its own property: the specification is wrong, not the code
            raise Infra("model-level run %s violates %s (specification error):\n%s" % (tag or module, r.violated, r.out[-3000:]))
        if not r.no_error:
            raise Infra("model-level run %s did not complete:\n%s" % (tag or module, r.out[-3000:]))
        with self.lock:
            self.cov["states"] += r.distinct
            self.cov["transitions"] += r.generated
            self.cov["model_runs"].append({"run": tag or module, "distinct_states": r.distinct,
                                           "states_generated": r.generated, "wall_s": round(r.wall, 1)})
        return r

    def negative_twin(self, module, cfg, tag, expect=None, **kw):
        """A deliberately broken variant of the model: TLC MUST reject it (vacuity guard)."""
        r = self.tlc(module, cfg, tag=tag, **kw)
        if not r.violated:
            raise Infra("negative twin %s was NOT rejected by TLC - the invariants are vacuous:\n%s" % (tag, r.out[-2000:]))
        if expect and not (set(expect) & set(r.violated)):
            raise Infra("negative twin %s violated %s, expected one of %s" % (tag, r.violated, expect))
        self.cov["negative_twins"].append({"twin": tag, "rejected_by": r.violated[0], "after_states": r.distinct})
        return r

    def validate_trace(self, module, cfg, trace_file, env=None, timeout=1800, tag=None):
        """Trace validation (binding T). The trace spec is a total monitor that writes
        [bad |-> ..., consumed |-> n, total |-> n] to RESULT_FILE when (and only when) it has consumed
        every event. Returns (bad, result-record). Raises Infra unless the whole trace was consumed."""
        tag = tag or module
        resf = self.path(tag + ".result.json")
        if os.path.exists(resf):
            os.remove(resf)
        e = {"TRACE_FILE": trace_file, "RESULT_FILE": resf}
        if not ("\n" in cfg or cfg.startswith("SPECIFICATION") or cfg.startswith("INIT")):
            with open(os.path.join(self.specdir, cfg)) as f:
                cfg = f.read()
        if "VIEW" not in cfg:
            cfg = cfg.rstrip("\n") + "\nVIEW TraceView\n"       # one state per event: fingerprint the position only
        if env:
            e.update(env)
        r = self.tlc(module, cfg, env=e, workers=1, timeout=timeout, tag=tag)
        if r.violated or not r.no_error:
            raise Infra("trace validation %s failed to run:\n%s" % (tag, r.out[-4000:]))
        if not os.path.exists(resf):
            raise Infra("trace validation %s did not consume the whole trace (monitor not total?):\n%s" % (tag, r.out[-3000:]))
        with open(resf) as f:
            res = json.load(f)
        if res["consumed"] != res["total"]:
            raise Infra("trace validation %s consumed %d of %d events" % (tag, res["consumed"], res["total"]))
        with self.lock:
            self.cov["states"] += r.distinct
            self.cov["transitions"] += r.generated
            self.cov["model_runs"].append({"run": "trace:" + tag, "events": res["total"], "wall_s": round(r.wall, 1)})
        return res["bad"], res

    def apalache(self, module, args, expect_error=False, timeout=600, tag=None):
        """Bounded/inductive check with Apalache (symbolic). Returns True when the outcome is as expected."""
        tag = tag or module
        outdir = tempfile.mkdtemp(prefix="apa-", dir=self.scratch)
        cmd = ["timeout", str(timeout), "apalache-mc", "check", "--out-dir=" + outdir] + args + [module + ".tla"]
        p = subprocess.run(cmd, cwd=self.specdir, capture_output=True, text=True)
        out = p.stdout + p.stderr
        shutil.rmtree(outdir, ignore_errors=True)
        if p.returncode == 124:
            raise Infra("Apalache timed out on %s" % tag)
        ok = "The outcome is: NoError" in out
        err = "The outcome is: Error" in out or "violation" in out.lower()
        if expect_error:
            if not err:
                raise Infra("Apalache twin %s was not rejected:\n%s" % (tag, out[-1500:]))
        elif not ok:
            raise Infra("Apalache run %s failed:\n%s" % (tag, out[-2500:]))
        with self.lock:
            self.cov["model_runs"].append({"run": "apalache:" + tag, "outcome": "error (expected)" if expect_error else "NoError"})
        return True

    def parallel(self, thunks, max_workers=4):
        """Run independent steps (TLC runs, driver runs) concurrently; the first exception is re-raised."""
        import concurrent.futures
        with concurrent.futures.ThreadPoolExecutor(max_workers=max_workers) as ex:
            futs = [ex.submit(t) for t in thunks]
            res = []
            err = None
            for f in futs:
                try:
                    res.append(f.result())
                except Exception as e:  # noqa: BLE001
                    err = err or e
                    res.append(None)
            if err:
                raise err
            return res

    # ------------------------------------------------------------ verdicts
    def violation(self, what, replay):
        """Record a violation unless it matches an OPEN known finding."""
        for f in self.findings:
            if f.get("property") == self.pid and f.get("status") == "open" and finding_matches(f, replay):
                msg = "%s [%s]" % (f["id"], f["summary"])
                if msg not in self.known:
                    self.known.append(msg)
                return
        self.violations.append({"what": what, "replay": replay})

    def finish(self):
        wall = time.time() - self.t0
        os.makedirs(EVID, exist_ok=True)
        rc = 0
        lines = []
        for k in self.known:
            lines.append("KNOWN-FINDING: property=%s %s" % (self.pid, k))
        for d in self.drift[:5]:
            lines.append("MODEL-DRIFT (not a verdict): %s" % d[:300])
        if self.violations:
            os.makedirs(REPLAY, exist_ok=True)
            for i, v in enumerate(self.violations[:20]):
                rp = os.path.join(REPLAY, "%s-%s-%d-%d.json" % (self.pid, self.tier, self.seed, i))
                with open(rp, "w") as f:
                    json.dump({"property": self.pid, "what": v["what"], "case": v["replay"]}, f, indent=1, default=str)
                lines.append("VIOLATION property=%s replay=%s" % (self.pid, rp))
                lines.append("  " + v["what"][:400])
            rc = 1
        cov = dict(self.cov)
        cov["model_drift"] = self.drift[:50]
        cov["known_findings"] = self.known
        if not cov["samples"]:
            cov["samples"] = ["(no sample recorded)"]
        ev = {
            "property_id": self.pid,
            "tier": self.tier if self.tier in ("quick", "thorough") else "quick",
            "seed": self.seed,
            "level": self.level,
            "coverage": cov,
            "assumptions": self.assumptions,
            "wall_s": round(wall, 1),
            "violations": len(self.violations),
        }
        with open(os.path.join(EVID, self.pid + ".json"), "w") as f:
            json.dump(ev, f, indent=1, default=str)
        for ln in lines:
            print(ln)
        print("%s %s seed=%d: %s in %.1fs (states=%d traces=%d evaluations=%d)" % (
            self.pid, self.tier, self.seed, "VIOLATED" if rc else "held", wall,
            cov["states"], cov["traces_validated_against_impl"], cov["evaluations"]))
        self.cleanup()
        return rc

    def cleanup(self):
        shutil.rmtree(self.scratch, ignore_errors=True)


# ---------------------------------------------------------------- helpers

def parse_tla_value(s):
    """Parse the printed form of simple TLA+ values (sets/sequences of ints/strings/nested)."""
    s = s.strip()
    py = s.replace("<<", "[").replace(">>", "]").replace("{", "[").replace("}", "]")
    py = re.sub(r"\bTRUE\b", "true", py)
    py = re.sub(r"\bFALSE\b", "false", py)
    try:
        return json.loads(py)
    except Exception:
        raise Infra("cannot parse TLA+ value: %r" % s[:200])


def load_findings():
    p = os.path.join(VERIF, "known_findings.json")
    if not os.path.exists(p):
        return []
    with open(p) as f:
        return json.load(f).get("findings", [])


def finding_matches(f, replay):
    """A finding's matcher is a dict of key -> regex that must all match (re.search) the string form of
    the corresponding key of the replay record."""
    m = f.get("matcher", {})
    if not m:
        return False
    for k, rx in m.items():
        v = replay.get(k) if isinstance(replay, dict) else None
        if v is None:
            return False
        if not isinstance(v, str):
            v = json.dumps(v)
        if not re.search(rx, v):
            return False
    return True


def read_ndjson(path):
    with open(path) as f:
        return [json.loads(ln) for ln in f if ln.strip()]


def run_check(fn, pid, level="model_checking"):
    """Entry point used by bin/check."""
    c = Check(pid, level)
    try:
        fn(c)
        rc = c.finish()
    except Infra as e:
        if c.violations:
            # real-code violations were already established by the property's own predicate; a later infrastructure
            # problem (e.g. a vacuity guard tripped BECAUSE of the misbehaviour) does not erase them
            c.drift.append("check ended early: %s" % str(e)[:300])
            return c.finish()
        sys.stderr.write("INFRA-ERROR %s: %s\n" % (pid, e))
        c.cleanup()
        return 2
    except Exception:
        import traceback
        traceback.print_exc()
        c.cleanup()
        return 2
    return rc


def generic_replay(pid, path):
    """Replay of a recorded violation: prints the recorded case and re-runs the property's check with the tier and seed under
    which the violation was found (both are part of the replay file). Exit code as for the check itself."""
    with open(path) as f:
        d = json.load(f)
    print("recorded violation of %s: %s" % (d.get("property"), d.get("what", "")[:2000]))
    print(json.dumps(d.get("case"), indent=1, default=str)[:6000])
    m = re.search(r"-(quick|thorough)-(\d+)-\d+\.json$", path)
    if m:
        os.environ["VERIF_TIER"] = m.group(1)
        os.environ["VERIF_SEED"] = m.group(2)
    import importlib
    mod = importlib.import_module(pid.lower())
    return run_check(mod.check, pid, getattr(mod, "LEVEL", "model_checking"))
