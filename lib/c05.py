"""C05 - every valid configuration is accepted; every violation is reported, typed."""
import cfglib


def check(c):
    c.build_driver()
    cfglib.run(c, "C05", "validation outcome / reported errors differ from the documented violations", c.tier == "thorough")
    c.cov["rule"] = cfglib.RULE
    c.assumptions += ["error SUPPORTS are compared, not multiplicities; a malformed origin pattern's Reason may be invalid or prohibited",
                      "the atom table's classification of its 202 concrete strings is trusted"]
