"""C07 - reconfiguration is atomic and race-free under concurrent traffic."""
import json
import os
import subprocess

from vlib import Infra, read_ndjson
import lifelib

MWT_CFG = """SPECIFICATION Spec
CONSTANTS
  Nil = "nil"
  MBug = "none"
INVARIANT Final
CHECK_DEADLOCK FALSE
"""


def check(c):
    thorough = c.tier == "thorough"
    # M: every interleaving of the lock protocol at critical-section granularity
    lifelib.mw_model(c, "TypeOK PassthroughHasDebugOff Atomic ConfigAtomic", "RejectedIsNoOp DebugMachine",
                     [("splitSnap", ["Atomic"]), ("lateDebug", ["Atomic"]), ("splitCommit", None)])
    # S: schedules of real goroutines. The mutexes of the scratch copy are instrumented at check time.
    nfiles = c.instrument_mutexes()
    gated = c.build_driver(tags=["verifgates"], name="driver_gates")
    racy = c.build_driver(race=True, name="driver_race", tags=["verifgates"])
    shards = 6 if thorough else 1
    tot = {"schedules": 0, "requests": 0, "raced": 0, "commits": 0, "exh": 0, "scen": 0}
    for k in range(shards):
        trace = c.path("c07_%d.ndjson" % k)
        summ = c.path("c07_%d.json" % k)
        c.run_driver(["c07", "-trace", trace, "-out", summ, "-limit", "3000" if thorough else "700",
                      "-scenarios", "60" if thorough else "22"], driver=gated, env={"VERIF_SEED": str(c.seed * 1000 + k)})
        s = json.load(open(summ))
        if nfiles and not s["mutex_gates"]:
            raise Infra("mutex instrumentation was applied but the driver does not see the gates")
        bad, res = c.validate_trace("TraceMiddleware", MWT_CFG, trace, tag="TraceMiddleware_%d" % k, timeout=3000)
        if bad:
            evs = read_ndjson(trace)
            seen = set()
            for idx, why in bad[:60]:
                j = idx - 1
                while evs[j]["ev"] != "Sched":
                    j -= 1
                sched = []
                for e in evs[j:idx]:
                    if e["ev"] == "Sched":
                        sched.append("start(%s,debug=%s)" % (e["icfg"], e["debug"]))
                    elif e["ev"] == "Begin":
                        sched.append("%s:begin[%s]" % (e["t"], e["op"] if e["kind"] != "request" else "request#%d" % e["req"]))
                    elif e["ev"] == "Commit":
                        sched.append("%s:commit[%s]" % (e["t"], e["op"]))
                    elif e["ev"] == "End":
                        sched.append("%s:end(gates=%s)" % (e["t"], e["gates"]))
                key = (why, tuple(sched))
                if key in seen:
                    continue
                seen.add(key)
                c.violation("%s; schedule: %s" % (why, " ".join(sched)), {"why": why, "schedule": sched, "event": evs[idx - 1]})
        tot["schedules"] += s["schedules"]
        tot["exh"] += s["exhaustive_scenarios"]
        tot["scen"] += s["scenarios"]
        for f in ("requests", "raced", "commits"):
            tot[f] += res["stats"][f]
        if k == 0:
            c.cov["samples"] += s["samples"][:3]
            c.cov["mutex_gates"] = s["mutex_gates"]
    if tot["raced"] == 0:
        raise Infra("vacuous C07 run: no request overlapped a state change: %r" % tot)
    # free-running stress under the race detector: any reported race violates the last sentence
    summ = c.path("c07stress.json")
    env = dict(os.environ, GORACE="exitcode=66 halt_on_error=1")
    p = subprocess.run([racy, "c07stress", "-dur", "20s" if thorough else "4s", "-out", summ], env=env, capture_output=True, text=True, cwd=c.scratch)
    if p.returncode == 66 or "WARNING: DATA RACE" in p.stderr:
        c.violation("data race reported by the race detector: " + p.stderr[:1500].replace("\n", " | "), {"race_report": p.stderr[:6000]})
    elif p.returncode == 3:
        s = json.load(open(summ))
        c.violation("free-running stress: a response / Config() value corresponds to no single state: " + s["first_mixed"], s)
    elif p.returncode != 0:
        raise Infra("stress driver failed: %s" % p.stderr[-2000:])
    else:
        s = json.load(open(summ))
        c.cov["stress_requests"] = s["served"]
        c.cov["stress_writer_calls"] = s["writer_calls"]
    c.cov["evaluations"] += tot["schedules"]
    c.cov["distinct_nontrivial"] += tot["raced"]
    c.cov["traces_validated_against_impl"] += tot["schedules"]
    c.cov["exhaustively_enumerated_scenarios"] = "%d of %d" % (tot["exh"], tot["scen"])
    c.cov["rule"] = ("scenarios = initial (configuration, debug) x 1-2 request threads (6 request kinds) x 1-2 writer threads "
                     "(Reconfigure(A|B|nil|invalid), SetDebug, Config); every interleaving of their gate-to-gate segments is executed on "
                     "real goroutines (exhaustively where it fits the budget, plus uniformly random schedules otherwise); gates: before "
                     "each mutex acquire / after each release (check-time instrumentation of the scratch copy), ResponseWriter.Header/"
                     "WriteHeader/Write, wrapped-handler entry; TLC validates each recorded execution against MwState with the window "
                     "history variable; distinct_nontrivial = requests whose window contained more than one state")
    c.assumptions += ["interleavings inside one critical section are not schedulable",
                      "check-time rewrite of sync.(RW)Mutex field types in a scratch copy; /repo itself is never instrumented"]
