"""C04 - no insecure or out-of-range configuration is ever accepted."""
import cfglib


def check(c):
    c.build_driver()
    cfglib.run(c, "C04", "an insecure or out-of-range configuration was accepted", c.tier == "thorough")
    c.cov["rule"] = cfglib.RULE
    c.assumptions += ["the atom table's classification of its 202 concrete strings (insecure? public suffix? which defect) is trusted"]
