#!/usr/bin/env python3
"""Regenerates /verif/MANIFEST.json from the table below (single source of truth for the interface)."""
import json
import os

VERIF = os.path.dirname(os.path.dirname(os.path.abspath(__file__)))

# id -> (category, technique, text, note, design_ref) ; only properties with a working check
CLAIMED = {
    "C01": ("model_checking",
            "TLC model checking of Radix.tla against Origins!Allowed + replay of every TLC-generated case into the real middleware + TLC trace validation of randomised real executions",
            "TLC exhaustively checks that the radix-tree algorithm (modelled function by function) answers exactly what the "
            "patterns denote for every insertion sequence of a bounded byte universe (negative twins must be rejected); every "
            "reachable sequence is then replayed through NewMiddleware/GET/preflight and the real ACAO verdict compared with the "
            "verdict TLC computed; seeded realistic pattern lists with all near-misses named by the quantifier are executed "
            "against the real code and the recorded traces are validated by TLC with the property's own predicate.",
            "Trusted: TLC, the Go concretiser (serialises patterns/origins from components), ACAO==Origin as the observable of "
            "'allowed'. Bounded: <=2 (quick) / <=3 (thorough) patterns over 72 abstract patterns x 84 probes; random lists beyond.",
            "DESIGN.md 4.1, 4.2, 7/C01"),
    "C02": ("model_checking",
            "TLC model checking of Cors.tla x Browser.tla (Fetch algorithms) against Permits + TLC trace validation: Fetch algorithms evaluated by TLC on responses recorded from the real middleware",
            "TLC checks on the model of the request-handling function that, for every abstract configuration x intent x debug x "
            "tolerated perturbation, the Fetch browser's verdict equals Permits (negative twins rejected). Then seeded "
            "configurations (spelled in randomised equivalent ways) and browser intents are run against the real middleware; "
            "TLC runs the Fetch CORS-preflight fetch / CORS check on the RECORDED real responses and compares with Permits, with "
            "origin membership decided by Origins!Allowed.",
            "Trusted: TLC, the Go concretiser/tokeniser, the reading of Fetch + PNA draft in Browser.tla. Sampled, not exhaustive, "
            "on the concrete side (30k cells quick / 400k thorough).",
            "DESIGN.md 4.6, 7/C02"),
    "C03": ("model_checking",
            "TLC model checking of Cors.tla (HeadersWellFormed, twins incl. the F4 defect) + TLC trace validation of real responses to junk/structured requests with a strict origin recogniser (OriginSyntax.tla) and Origins!Allowed",
            "Model level: the C03 conjuncts are invariants of Respond over every abstract configuration x request (absent / zero / multi-valued "
            "/ junk headers); twins (echoing a non-first Origin value; the bracket-stripping defect F4) must be rejected. Code level: fixed "
            "configuration kinds + seeded random ones x both debug modes x junk and structured requests are served by the real "
            "middleware and every recorded response is judged by TraceServe!C03ok in TLC on the raw Origin / ACAO bytes.",
            "Trusted: TLC, the Go response projection (abbreviation, tokenisation, byte codes). Known finding F4 is classified per event by "
            "TraceServe!C03isF4 and reported as KNOWN-FINDING; any other offending event is a VIOLATION.",
            "DESIGN.md 4.1, 4.6, 7/C03, 8"),
    "C10": ("model_checking",
            "TLC model checking of VarySufficient over all ordered request pairs of Cors.tla + TLC trace validation: all ordered pairs of real (request, response) blocks",
            "Model level: VarySufficient / VaryPreserved over all ordered pairs of the abstract request universe (thorough; quick checks VaryPreserved "
            "and that the F5 twin is rejected). Code level: per (configuration, debug, pre-set Vary) block the structured request universe is served "
            "by the real middleware and TLC quantifies over all ordered pairs of the block using the REAL Vary value of the first response.",
            "Trusted: TLC, Go projection. 'agree' = equal field-line sequences (absent == zero-length). Constant inner handler within a block.",
            "DESIGN.md 4.6, 7/C10"),
    "C11": ("model_checking",
            "TLC model checking of DispatchRule/OnlyDocumentedEdits on Cors.tla + TLC trace validation of spy-handler observations from the real middleware",
            "Model level: handled <=> configured and preflight-shaped; non-handled responses only append to Vary and set ACAO/ACAC/ACEH. Code level: "
            "configuration kinds incl. both passthrough forms x request universe (every combination of method and presence/emptiness/"
            "zero-length of Origin and ACRM) x (pre-set headers, inner handler) variants; TLC judges invocation count, request/writer identity, "
            "headers on handler entry/exit, final status/body/headers.",
            "Trusted: TLC, the recorder/spy (pointer identity, header snapshots).",
            "DESIGN.md 4.6, 7/C11"),
    "C16": ("model_checking",
            "TLC model checking of NoDisclosure on Cors.tla (twin: buffer copied on failure) + TLC trace validation of real preflight responses with debug off",
            "Model level: NoDisclosure over every abstract configuration x preflight. Code level: every preflight served with debug off (junk and "
            "structured universes, fixed + random configurations) is judged by TraceServe!C16ok: failing => no Access-Control-* header and one status "
            "per block; succeeding => only *, true, max-age and request-supplied tokens.",
            "Trusted: TLC, Go tokenisation of ACRM/ACRH/ACAM/ACAH. 'succeeds' = ok status and ACAO present.",
            "DESIGN.md 4.6, 7/C16"),
    "C06": ("model_checking",
            "TLC model checking of the Elems round-trip lemma on Radix.tla + TLC trace validation (TraceLifecycle.tla) of real constructor / Config() / Reconfigure executions",
            "Model level: what Tree.Elems lists denotes exactly what was inserted and a tree rebuilt from it answers identically (every insertion "
            "sequence of the bounded universe). Code level: seeded accepted configurations x three constructors x both debug modes x "
            "Reconfigure(Config()) x second-generation middleware; TLC steps the documented state machine and requires the fingerprint "
            "of all probe responses to be a function of the abstract state, Reconfigure(Config()) to succeed, and Config() to be stable "
            "after one round trip.",
            "Trusted: TLC, sha-256 fingerprints of (status, all headers, handler invoked) over a request suite derived from each configuration. Real-vs-real comparison.",
            "DESIGN.md 4.2, 4.7, 7/C06"),
    "C08": ("model_checking",
            "TLC model checking of RejectedIsNoOp on Middleware.tla + TLC trace validation (TraceLifecycle.tla) of real rejected Reconfigure calls",
            "Model level: the action property RejectedIsNoOp on the concurrent model. Code level: prior states x 24 invalid configurations; after each "
            "rejected Reconfigure the real middleware is observed (all probe responses, Config(), debug probe) and TLC requires the state's "
            "reference observation and a non-nil error.",
            "Trusted: TLC, fingerprints. Real-vs-real comparison under the spec's state machine.",
            "DESIGN.md 4.7, 7/C08"),
    "C09": ("model_checking",
            "TLC model checking (invariant PassthroughHasDebugOff, action property DebugMachine, DebugOnlyDiagnostics on Cors.tla) + exhaustive TLC-generated call histories replayed on the real middleware and validated by TLC",
            "Model level: concurrent model + all sequential histories (LifecycleMC) + the debug-only-diagnostics statement on the request model, twins "
            "rejected (the SetDebug-as-formerly-coded twin F2 among them). Code level: EVERY history of the bounded universe is replayed on a real "
            "middleware and observed after every step; TLC steps the documented state machine along the recorded trace; distinct states must be "
            "observably distinct. Debug-on vs debug-off responses of junk/structured request sets are compared by TraceServe (Prop C09).",
            "Trusted: TLC, fingerprints, the reading of 'changes only the diagnostics of failing preflights' stated in DESIGN.md (the full allowed-header list may also replace the reflected list on a succeeding preflight).",
            "DESIGN.md 4.7, 7/C09"),
    "C12": ("model_checking",
            "TLC trace validation (TraceLifecycle.tla): caller-side mutations and mutating handlers are stuttering steps of the state machine; observations must stay a function of the abstract state",
            "Several real middlewares alive at once; in-place writes up to cap over every slice of Config arguments and Config() results, and a wrapped "
            "handler that overwrites every request/response header slice it can reach while serving the whole probe suite; after every step all "
            "middlewares (and one created afterwards) are observed; TLC requires the reference observation of the unchanged state.",
            "Trusted: TLC, fingerprints. Writers that modify the response AFTER the middleware returned are out of the property's scope and are not exercised.",
            "DESIGN.md 4.7, 7/C12"),
    "C07": ("model_checking",
            "TLC model checking of Middleware.tla (all interleavings, window history variable) + systematic schedule exploration of real goroutines through scheduler gates, each execution validated by TLC (TraceMiddleware.tla) + race-detector stress",
            "Model level: Atomic / ConfigAtomic over every interleaving of 2 requests x 2 writers at critical-section granularity; twins (split snapshot, late "
            "re-read of debug, split commit) rejected. Code level: the mutex of a scratch copy is instrumented at check time; the controller enumerates "
            "the interleavings of gate-to-gate segments of real goroutines (mutex acquire/release, ResponseWriter.Header/WriteHeader/Write, handler "
            "entry) and TLC validates every recorded execution: the response must be the reference response of ONE state of the request's window, "
            "Config() the rendering of one. A free-running -race stress run covers the data-race clause.",
            "Trusted: TLC, the controller (one logical thread at a time => event order = execution order), the textual mutex retyping, Go's race detector. "
            "Interleavings inside a critical section are not schedulable.",
            "DESIGN.md 4.7, 5.3, 6.2, 7/C07"),
}

NOT_YET = "check not built yet in this round (planned, see DESIGN.md section 7)"


def main():
    props = [json.loads(l) for l in open(os.path.join(VERIF, "properties.jsonl"))]
    checks = []
    na = []
    for p in props:
        pid = p["id"]
        if pid in CLAIMED:
            cat, tech, text, note, ref = CLAIMED[pid]
            checks.append({
                "property_id": pid,
                "quick_cmd": "bin/check %s quick" % pid,
                "thorough_cmd": "bin/check %s thorough" % pid,
                "evidence_file": "/verif/evidence/%s.json" % pid,
                "replay_cmd_template": "bin/check %s --replay {path}" % pid,
                "engine": "tlc+go-conformance",
                "level_claimed": {"category": cat, "text": text, "design_ref": ref},
                "level_note": note,
                "technique": tech,
            })
        else:
            na.append({"property_id": pid, "reason": NOT_APPLICABLE.get(pid, NOT_YET)})
    man = {
        "version": 1,
        "setup_cmd": "bin/setup",
        "hooks": {
            "guard": "verif",
            "enable": "none needed: every property is observed through the public API; the only instrumentation "
                      "(scheduler gates on the mutex, C07) is applied at check time to a scratch copy of /repo's working tree",
            "baseline_off_cmd": "cd /repo && GOFLAGS=-mod=mod GOPROXY=off go test -vet=off -count=1 ./...",
            "source_commits": [],
            "add_only": True,
        },
        "engines": [{
            "name": "tlc+go-conformance",
            "path": "/verif/bin/check",
            "serves_properties": sorted(CLAIMED),
            "kind_free_text": "explicit TLA+ specifications (/verif/spec) checked with TLC; bound to the code by replaying "
                              "TLC-generated cases into the real public API (Go driver /verif/harness) and by TLC validation "
                              "of NDJSON traces recorded from real executions",
        }],
        "checks": checks,
        "not_applicable": na,
        "notes": "See DESIGN.md. Exit 0 held / 1 VIOLATION / 2 infrastructure failure. known_findings.json lists genuine defects.",
    }
    with open(os.path.join(VERIF, "MANIFEST.json"), "w") as f:
        json.dump(man, f, indent=1)
        f.write("\n")


NOT_APPLICABLE = {}

if __name__ == "__main__":
    main()
