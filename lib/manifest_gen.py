#!/usr/bin/env python3
"""Regenerates /verif/MANIFEST.json from the table below (single source of truth for the interface)."""
import json
import os

VERIF = os.path.dirname(os.path.dirname(os.path.abspath(__file__)))

# id -> (category, technique, text, note, design_ref) ; only properties with a working check
CLAIMED = {
    "C01": ("model_checking",
            "TLC model checking of Radix.tla against Origins!Allowed + replay of every TLC-generated case into the real middleware + TLC trace validation of randomised real executions",
            "TLC exhaustively checks that the radix-tree algorithm (modelled function by function) answers exactly what the "
            "patterns denote for every insertion sequence of a bounded byte universe (negative twins must be rejected); every "
            "reachable sequence is then replayed through NewMiddleware/GET/preflight and the real ACAO verdict compared with the "
            "verdict TLC computed; seeded realistic pattern lists with all near-misses named by the quantifier are executed "
            "against the real code and the recorded traces are validated by TLC with the property's own predicate.",
            "Trusted: TLC, the Go concretiser (serialises patterns/origins from components), ACAO==Origin as the observable of "
            "'allowed'. Bounded: <=2 (quick) / <=3 (thorough) patterns over 72 abstract patterns x 84 probes; random lists beyond.",
            "DESIGN.md 4.1, 4.2, 7/C01"),
    "C02": ("model_checking",
            "TLC model checking of Cors.tla x Browser.tla (Fetch algorithms) against Permits + TLC trace validation: Fetch algorithms evaluated by TLC on responses recorded from the real middleware",
            "TLC checks on the model of the request-handling function that, for every abstract configuration x intent x debug x "
            "tolerated perturbation, the Fetch browser's verdict equals Permits (negative twins rejected). Then seeded "
            "configurations (spelled in randomised equivalent ways) and browser intents are run against the real middleware; "
            "TLC runs the Fetch CORS-preflight fetch / CORS check on the RECORDED real responses and compares with Permits, with "
            "origin membership decided by Origins!Allowed.",
            "Trusted: TLC, the Go concretiser/tokeniser, the reading of Fetch + PNA draft in Browser.tla. Sampled, not exhaustive, "
            "on the concrete side (30k cells quick / 400k thorough).",
            "DESIGN.md 4.6, 7/C02"),
}

NOT_YET = "check not built yet in this round (planned, see DESIGN.md section 7)"


def main():
    props = [json.loads(l) for l in open(os.path.join(VERIF, "properties.jsonl"))]
    checks = []
    na = []
    for p in props:
        pid = p["id"]
        if pid in CLAIMED:
            cat, tech, text, note, ref = CLAIMED[pid]
            checks.append({
                "property_id": pid,
                "quick_cmd": "bin/check %s quick" % pid,
                "thorough_cmd": "bin/check %s thorough" % pid,
                "evidence_file": "/verif/evidence/%s.json" % pid,
                "replay_cmd_template": "bin/check %s --replay {path}" % pid,
                "engine": "tlc+go-conformance",
                "level_claimed": {"category": cat, "text": text, "design_ref": ref},
                "level_note": note,
                "technique": tech,
            })
        else:
            na.append({"property_id": pid, "reason": NOT_APPLICABLE.get(pid, NOT_YET)})
    man = {
        "version": 1,
        "setup_cmd": "bin/setup",
        "hooks": {
            "guard": "verif",
            "enable": "none needed: every property is observed through the public API; the only instrumentation "
                      "(scheduler gates on the mutex, C07) is applied at check time to a scratch copy of /repo's working tree",
            "baseline_off_cmd": "cd /repo && GOFLAGS=-mod=mod GOPROXY=off go test -vet=off -count=1 ./...",
            "source_commits": [],
            "add_only": True,
        },
        "engines": [{
            "name": "tlc+go-conformance",
            "path": "/verif/bin/check",
            "serves_properties": sorted(CLAIMED),
            "kind_free_text": "explicit TLA+ specifications (/verif/spec) checked with TLC; bound to the code by replaying "
                              "TLC-generated cases into the real public API (Go driver /verif/harness) and by TLC validation "
                              "of NDJSON traces recorded from real executions",
        }],
        "checks": checks,
        "not_applicable": na,
        "notes": "See DESIGN.md. Exit 0 held / 1 VIOLATION / 2 infrastructure failure. known_findings.json lists genuine defects.",
    }
    with open(os.path.join(VERIF, "MANIFEST.json"), "w") as f:
        json.dump(man, f, indent=1)
        f.write("\n")


NOT_APPLICABLE = {}

if __name__ == "__main__":
    main()
