#!/usr/bin/env python3
"""Regenerates /verif/MANIFEST.json from the table below (single source of truth for the interface)."""
import json
import os

VERIF = os.path.dirname(os.path.dirname(os.path.abspath(__file__)))

# id -> (category, technique, text, note, design_ref) ; only properties with a working check
CLAIMED = {
    "C01": ("model_checking",
            "TLC model checking of Radix.tla against Origins!Allowed + replay of every TLC-generated case into the real middleware + TLC trace validation of randomised real executions",
            "TLC exhaustively checks that the radix-tree algorithm (modelled function by function) answers exactly what the "
            "patterns denote for every insertion sequence of a bounded byte universe (negative twins must be rejected); every "
            "reachable sequence is then replayed through NewMiddleware/GET/preflight and the real ACAO verdict compared with the "
            "verdict TLC computed; seeded realistic pattern lists with all near-misses named by the quantifier are executed "
            "against the real code and the recorded traces are validated by TLC with the property's own predicate.",
            "Trusted: TLC, the Go concretiser (serialises patterns/origins from components), ACAO==Origin as the observable of "
            "'allowed'. Bounded: <=2 (quick) / <=3 (thorough) patterns over 72 abstract patterns x 84 probes; random lists beyond.",
            "DESIGN.md 4.1, 4.2, 7/C01"),
    "C02": ("model_checking",
            "TLC model checking of Cors.tla x Browser.tla (Fetch algorithms) against Permits + TLC trace validation: Fetch algorithms evaluated by TLC on responses recorded from the real middleware",
            "TLC checks on the model of the request-handling function that, for every abstract configuration x intent x debug x "
            "tolerated perturbation, the Fetch browser's verdict equals Permits (negative twins rejected). Then seeded "
            "configurations (spelled in randomised equivalent ways) and browser intents are run against the real middleware; "
            "TLC runs the Fetch CORS-preflight fetch / CORS check on the RECORDED real responses and compares with Permits, with "
            "origin membership decided by Origins!Allowed.",
            "Trusted: TLC, the Go concretiser/tokeniser, the reading of Fetch + PNA draft in Browser.tla. Sampled, not exhaustive, "
            "on the concrete side (30k cells quick / 400k thorough).",
            "DESIGN.md 4.6, 7/C02"),
    "C03": ("model_checking",
            "TLC model checking of Cors.tla (HeadersWellFormed, twins incl. the F4 defect) + TLC trace validation of real responses to junk/structured requests with a strict origin recogniser (OriginSyntax.tla) and Origins!Allowed",
            "Model level: the C03 conjuncts are invariants of Respond over every abstract configuration x request (absent / zero / multi-valued "
            "/ junk headers); twins (echoing a non-first Origin value; the bracket-stripping defect F4) must be rejected. Code level: fixed "
            "configuration kinds + seeded random ones x both debug modes x junk and structured requests are served by the real "
            "middleware and every recorded response is judged by TraceServe!C03ok in TLC on the raw Origin / ACAO bytes.",
            "Trusted: TLC, the Go response projection (abbreviation, tokenisation, byte codes). Known finding F4 is classified per event by "
            "TraceServe!C03isF4 and reported as KNOWN-FINDING; any other offending event is a VIOLATION.",
            "DESIGN.md 4.1, 4.6, 7/C03, 8"),
    "C10": ("model_checking",
            "TLC model checking of VarySufficient over all ordered request pairs of Cors.tla + TLC trace validation: all ordered pairs of real (request, response) blocks",
            "Model level: VarySufficient / VaryPreserved over all ordered pairs of the abstract request universe (thorough; quick checks VaryPreserved "
            "and that the F5 twin is rejected). Code level: per (configuration, debug, pre-set Vary) block the structured request universe is served "
            "by the real middleware and TLC quantifies over all ordered pairs of the block using the REAL Vary value of the first response.",
            "Trusted: TLC, Go projection. 'agree' = equal field-line sequences (absent == zero-length). Constant inner handler within a block.",
            "DESIGN.md 4.6, 7/C10"),
    "C11": ("model_checking",
            "TLC model checking of DispatchRule/OnlyDocumentedEdits on Cors.tla + TLC trace validation of spy-handler observations from the real middleware",
            "Model level: handled <=> configured and preflight-shaped; non-handled responses only append to Vary and set ACAO/ACAC/ACEH. Code level: "
            "configuration kinds incl. both passthrough forms x request universe (every combination of method and presence/emptiness/"
            "zero-length of Origin and ACRM) x (pre-set headers, inner handler) variants; TLC judges invocation count, request/writer identity, "
            "headers on handler entry/exit, final status/body/headers.",
            "Trusted: TLC, the recorder/spy (pointer identity, header snapshots).",
            "DESIGN.md 4.6, 7/C11"),
    "C16": ("model_checking",
            "TLC model checking of NoDisclosure on Cors.tla (twin: buffer copied on failure) + TLC trace validation of real preflight responses with debug off",
            "Model level: NoDisclosure over every abstract configuration x preflight. Code level: every preflight served with debug off (junk and "
            "structured universes, fixed + random configurations) is judged by TraceServe!C16ok: failing => no Access-Control-* header and one status "
            "per block; succeeding => only *, true, max-age and request-supplied tokens.",
            "Trusted: TLC, Go tokenisation of ACRM/ACRH/ACAM/ACAH. 'succeeds' = ok status and ACAO present.",
            "DESIGN.md 4.6, 7/C16"),
    "C06": ("model_checking",
            "TLC model checking of the Elems round-trip lemma on Radix.tla + TLC trace validation (TraceLifecycle.tla) of real constructor / Config() / Reconfigure executions",
            "Model level: what Tree.Elems lists denotes exactly what was inserted and a tree rebuilt from it answers identically (every insertion "
            "sequence of the bounded universe). Code level: seeded accepted configurations x three constructors x both debug modes x "
            "Reconfigure(Config()) x second-generation middleware; TLC steps the documented state machine and requires the fingerprint "
            "of all probe responses to be a function of the abstract state, Reconfigure(Config()) to succeed, and Config() to be stable "
            "after one round trip.",
            "Trusted: TLC, sha-256 fingerprints of (status, all headers, handler invoked) over a request suite derived from each configuration. Real-vs-real comparison.",
            "DESIGN.md 4.2, 4.7, 7/C06"),
    "C08": ("model_checking",
            "TLC model checking of RejectedIsNoOp on Middleware.tla + TLC trace validation (TraceLifecycle.tla) of real rejected Reconfigure calls",
            "Model level: the action property RejectedIsNoOp on the concurrent model. Code level: prior states x 24 invalid configurations; after each "
            "rejected Reconfigure the real middleware is observed (all probe responses, Config(), debug probe) and TLC requires the state's "
            "reference observation and a non-nil error.",
            "Trusted: TLC, fingerprints. Real-vs-real comparison under the spec's state machine.",
            "DESIGN.md 4.7, 7/C08"),
    "C09": ("model_checking",
            "TLC model checking (invariant PassthroughHasDebugOff, action property DebugMachine, DebugOnlyDiagnostics on Cors.tla) + exhaustive TLC-generated call histories replayed on the real middleware and validated by TLC",
            "Model level: concurrent model + all sequential histories (LifecycleMC) + the debug-only-diagnostics statement on the request model, twins "
            "rejected (the SetDebug-as-formerly-coded twin F2 among them). Code level: EVERY history of the bounded universe is replayed on a real "
            "middleware and observed after every step; TLC steps the documented state machine along the recorded trace; distinct states must be "
            "observably distinct. Debug-on vs debug-off responses of junk/structured request sets are compared by TraceServe (Prop C09).",
            "Trusted: TLC, fingerprints, the reading of 'changes only the diagnostics of failing preflights' stated in DESIGN.md (the full allowed-header list may also replace the reflected list on a succeeding preflight).",
            "DESIGN.md 4.7, 7/C09"),
    "C12": ("model_checking",
            "TLC trace validation (TraceLifecycle.tla): caller-side mutations and mutating handlers are stuttering steps of the state machine; observations must stay a function of the abstract state",
            "Several real middlewares alive at once; in-place writes up to cap over every slice of Config arguments and Config() results, and a wrapped "
            "handler that overwrites every request/response header slice it can reach while serving the whole probe suite; after every step all "
            "middlewares (and one created afterwards) are observed; TLC requires the reference observation of the unchanged state.",
            "Trusted: TLC, fingerprints. Writers that modify the response AFTER the middleware returned are out of the property's scope and are not exercised.",
            "DESIGN.md 4.7, 7/C12"),
    "C07": ("model_checking",
            "TLC model checking of Middleware.tla (all interleavings, window history variable) + systematic schedule exploration of real goroutines through scheduler gates, each execution validated by TLC (TraceMiddleware.tla) + race-detector stress",
            "Model level: Atomic / ConfigAtomic over every interleaving of 2 requests x 2 writers at critical-section granularity; twins (split snapshot, late "
            "re-read of debug, split commit) rejected. Code level: the mutex of a scratch copy is instrumented at check time; the controller enumerates "
            "the interleavings of gate-to-gate segments of real goroutines (mutex acquire/release, ResponseWriter.Header/WriteHeader/Write, handler "
            "entry) and TLC validates every recorded execution: the response must be the reference response of ONE state of the request's window, "
            "Config() the rendering of one. A free-running -race stress run covers the data-race clause.",
            "Trusted: TLC, the controller (one logical thread at a time => event order = execution order), the textual mutex retyping, Go's race detector. "
            "Interleavings inside a critical section are not schedulable.",
            "DESIGN.md 4.7, 5.3, 6.2, 7/C07"),
    "C04": ("model_checking",
            "TLC model checking of Config.tla (two independent formulations agree on all bounded atom configurations) + TLC-enumerated and seeded configurations run through the real NewMiddleware/Reconfigure, judged by TLC (TraceConfig.tla, NoProhibitionViolated)",
            "Model level: over all origin lists of <= 2 atoms x 32 switch combinations, all Methods x RequestHeaders x ResponseHeaders lists of <= 2 atoms x "
            "Credentialed and boundary integers, a configuration has no expected violation exactly when it violates no documented prohibition. Code "
            "level: those configurations (sampled in the quick tier), every atom spelling in list positions 1-3 and seeded random mixes go through "
            "NewMiddleware and Reconfigure (passthrough and configured); TLC requires NoProhibitionViolated for every accepted one and a nil "
            "*Middleware with every error.",
            "Trusted: TLC, the atom table's classification of 202 concrete strings (insecure? public suffix? defect class).",
            "DESIGN.md 4.5, 7/C04"),
    "C05": ("model_checking",
            "TLC trace validation (TraceConfig.tla): accepted <=> Violations = {} and the support of the errors yielded by cfgerrors.All equals the documented violations",
            "Same configurations as C04; for every call TLC computes Violations(cfg) from the atom attributes and requires: accepted iff empty; every yielded "
            "error a non-nil pointer to an exported cfgerrors type with a 'cors: ' message; every expected violation reported with type, value as "
            "supplied, reason / type / bounds; no error without a violation.",
            "Trusted: TLC, the atom table, the Go type switch that projects errors. Supports are compared, not multiplicities; a malformed pattern's Reason may be invalid or prohibited.",
            "DESIGN.md 4.5, 7/C05"),
    "C13": ("model_checking",
            "TLC model checking of the component grammar (Pattern.tla) + every TLC-enumerated valid combination and single-defect mutation built byte for byte and judged by TLC on the real outcome (TracePattern.tla)",
            "Model level: every generated valid combination satisfies Valid, every single-defect mutation falsifies it. Code level: 38.5k candidates "
            "(all length maxima at once: 64-byte scheme, 253-byte domain + trailing dot, 5-digit port) are built from components and given to "
            "NewMiddleware; accepted wildcard-free ones are presented verbatim as Origin; TLC requires accepted = Valid for judged "
            "candidates, an UnacceptableOriginPatternError naming the string otherwise, and self-match.",
            "Trusted: TLC, the Go builder (component -> bytes). Grey zones (https + IP, `*.` + 251-byte base + trailing dot, IP + trailing dot, `_`, hyphens in positions 3-4, upper-case scheme) are not judged.",
            "DESIGN.md 4.4, 7/C13"),
    "C14": ("model_checking",
            "TLC model checking: windowed scanner model == declarative meaning on all bounded inputs (Acrh.tla) + replay of the whole bounded universe through the public API + TLC trace validation of seeded inputs around the real cut-offs",
            "Model level: Scan = Approved, AllInBounds, Sound, BrowserComplete on every name set over {a,b,ab,ba} x every sequence of field lines over "
            "{a,b,',',SP,TAB} within the bound; three twins rejected. Code level: every state of that universe is replayed through a real preflight and "
            "compared with ApprovedWith(1,16) computed by TLC; seeded lists around longest-name + padding + comma, 0-3 OWS bytes, 0-20 empties, 1-4 "
            "lines are judged by Acrh!Approved in TLC.",
            "Trusted: TLC, byte-order-preserving concretisation (a < b). Reading: a whitespace-only element of 2 bytes is an empty element.",
            "DESIGN.md 4.3, 7/C14"),
    "C15": ("model_checking",
            "TLC model checking of order/multiplicity irrelevance on Radix.tla + TLC trace validation (TraceLifecycle.tla): twins of a configuration share one abstract state and must be observed identically",
            "Model level: Refines on every insertion sequence (every order and multiplicity). Code level: seeded accepted configurations x {independently "
            "re-spelled twins (order, duplicates, header-name case, normalisable method spellings, safelisted extras, */Authorization order) + every "
            "permutation of each list field (<= 24 per field)}; all twins observed in both debug modes; TLC requires one fingerprint per state.",
            "Trusted: TLC, fingerprints; twins are equivalent by construction of Sem.spell. Config() values are deliberately not compared.",
            "DESIGN.md 4.5, 7/C15"),
    "C17": ("exploration",
            "model-guided exploration: TLC proves the modelled scanners' index arithmetic in bounds on bounded inputs; the union of all generators (extreme sizes, junk, arbitrary Config values) runs under recover and TLC's monitor has no action for a Panic event",
            "Absence of panics is observed, not proved. The specification contributes AllInBounds on Acrh.tla and steers the generators to boundaries; "
            "the check runs 1 byte..1 MiB / 1..10^5 elements or lines in every CORS request header under 14 configurations x debug x OPTIONS/GET, 3000 "
            "arbitrary Config values through NewMiddleware/Reconfigure/Config/All, the junk and structured universes (nil / zero-length header "
            "slices) and every atom spelling.",
            "Trusted: recover() around every call. Go memory safety beyond panics is out of scope.",
            "DESIGN.md 7/C17, 9"),
    "C18": ("exploration",
            "cost-annotated trace validation: allocations per request measured on a size ladder per Respond path; TLC (TraceCost.tla) requires a size-free budget per path",
            "The weakest use of the technique (DESIGN.md section 9): TLA+ says nothing about Go's allocator. The specification supplies the path structure "
            "and a size-free budget; testing.AllocsPerRun measures 5 configuration kinds x debug x method x field x 7 value shapes x sizes 1..10^4 "
            "(thorough: 10^5 / 1 MiB); TLC requires allocs(size) <= allocs(smallest) + 1 and <= 12 per path.",
            "Trusted: testing.AllocsPerRun with a reusable writer (measured 0-3 allocations on every path of the unchanged tree, stable).",
            "DESIGN.md 7/C18, 9"),
    "C19": ("model_checking",
            "TLC model checking of the push-iterator model on all join trees up to a node bound x all break positions (ErrTree.tla) + every such tree rebuilt with the real errors.Join and iterated with the real cfgerrors.All, validated by TLC",
            "Model level: Correct for every tree with <= 9 (thorough 11) nodes and every break position; the inner-loop-only-exit twin is rejected. Code "
            "level: every tree x break position with real errors.Join / cfgerrors.All (direct call with counting consumer + range loop); TLC requires "
            "the first k leaves, no late yield, no panic. Second sentence: on the C04/C05 configuration traces count(All(err)) = leaves found by "
            "an own walk of Unwrap() []error >= distinct expected violations.",
            "Trusted: TLC, the Go tree builder.",
            "DESIGN.md 4.8, 7/C19"),
}

NOT_YET = "check not built yet in this round (planned, see DESIGN.md section 7)"


# what was added to a check after the seed rounds (appended to technique / text; see DESIGN.md 11.2a)
ADDED = {
    "C03": (" + replay of TLC-generated radix universes (over-grant direction)",
            " Added: one long-lived middleware reconfigured from configuration to configuration with carry-over, cross, shape and "
            "history probes; every insertion sequence of two RadixMC universes replayed, an origin Origins!Allowed does not admit must never be echoed. Later: responses not yet committed must not change while other middlewares serve (LateChange); layered variants (behind an outer middleware of this library / a layer leaving the request's own Origin slice as ACAO) judged on what the middleware emits; header keys without field lines as writer pre-state. Round 11: conformance of Cors!Respond with pre-set headers (75 k responses per quick run); appending writers; buffered view."),
    "C04": ("", " Added: Reconfigure on middlewares holding neighbour configurations; `*`-mixed origin lists always replayed; deep / wildcard-rule / "
                "exception-rule public suffixes; 64-bit boundary integers (capped projection for TLC). Later: wildcard-mixed lists always replayed, final-label / multi-KiB defects, look-alike header names, internationalized public suffixes."),
    "C05": ("", " Added: as C04; errors are traversed twice over one iterator value."),
    "C06": (" + TLC trace validation of Config() VALUES against NormalForm.tla",
            " Added: NormalForm.tla/TraceNormal.tla judge the value of Config() for generations 0-2 (mismatch = model drift; still changing after one "
            "round trip = violation); deterministic sweep of the scalar boundary values; noise operations. Later: six documented ways of arriving at a configuration (buildVia); both middlewares serve behind a mutating handler before Config() is read."),
    "C07": (" + TLC-generated method-race scenarios (ConcMC.tla) executed under every schedule",
            " Added: ConcMC.tla generates initial state x 2 (thorough: 3) concurrent calls x epilogue; every schedule of the gate-to-gate segments is run, "
            "then the epilogue and probes; typed atomics are gates too; a panic in a scheduled thread is an event TLC flags. Later: the caller reusing its own edited Config value; replay tolerant of state that outlives an execution. Round 11: handlers keep the header values they were given, commit, then edit them; the epilogue's probes and Config() run twice."),
    "C08": (" + twin experiment over TLC-generated histories + ConcMC scenarios containing a rejected Reconfigure",
            " Added: every LifecycleMC history with a rejected Reconfigure is performed with and without the rejected calls and compared after every later "
            "operation (TraceLifecycle!Pair); a rejected Reconfigure racing with another call under every schedule (TraceMiddleware)."),
    "C09": (" + ConcMC scenarios containing a SetDebug under every schedule", " Added: SetDebug racing with Reconfigure (ConcMC.tla), epilogue makes a latent debug flag observable. Later: every other history makes its SetDebug / Reconfigure calls from inside a handler the middleware wraps (Hang event when a call does not return)."),
    "C10": ("", " Added: long-lived reconfigured middleware, identical requests at both ends of a block, request shapes (body, URL) that Vary cannot name. Later: allow-all configurations that also list patterns, `*` position in deterministic alternation; two early-wrapped handlers. Round 11: noise operations (Config() calls) in the middle of every other middleware's blocks; nested middlewares."),
    "C11": ("", " Added: handlers wrapped before configuration; a handler that calls back into its own middleware under a watchdog (Hang event); request shapes. Later: driver watchdog - a call into the library that never returns ends the run with a Hang event; flagged when a plain request no longer gets through. Round 11: a never-configured second middleware nested inside / outside the one under test; conformance of Cors!Respond with pre-set headers on every response."),
    "C12": (" + TLC-generated histories over two middlewares (MultiMC.tla) + history independence against a fresh middleware per request (TraceServe Prop C12)",
            " Added: MultiMC.tla generates every history of 3 (thorough: 4) operations over two middlewares incl. mutate-argument, mutate-result, "
            "mutating handler and in-place reuse of the passed Config; a long-lived middleware serves every block twice in different orders and must answer like a "
            "middleware created for that one request. Round 11: appending writers (a value appended to every field present once the status is committed, after recording what the client sees)."),
    "C13": ("", " Added: look-alike custom schemes; each pattern also listed before/after `*`, a valid origin and a near-covering wildcard pattern (verdict and self-match must not change). Later: each string also in configurations unacceptable for an unrelated reason (a defective pattern is still named, a valid one never)."),
    "C14": ("", " Added: allow-lists of 9-20 names with every ordered pair; noise operations (aliasing of Config() results). Round 11: the rest of the configuration varies (Methods `*`, credentials, max-age, exposed headers, status, more origins)."),
    "C15": ("", " Added: header names with every token punctuation, long names, names byte-identical in both header lists. Later: Authorization next to an exposed `*` in alternation; two fixed wildcard configurations whose every permutation is compared. Round 11: twins differing only in repetition, derived from the rendered form and installed by Reconfigure over it; a fixed case with names beyond 255 bytes."),
    "C16": (" + ConcMC scenarios containing SetDebug(false) under every schedule", " Added: debug off according to the calls made: SetDebug(false) racing with other calls. Round 11: buffered view - the response a writer sends that reads the header map when the handler chain has returned is judged too."),
    "C17": (" + schedule exploration (panics in scheduled threads)", " Added: long mixed-case tokens; every error walked with every break position; the request x writer and ConcMC scenarios under every schedule. Later: C03's layered and empty-key writer states are replayed here too."),
    "C18": ("", " Added: 128-name, 64-long-name, 121-deep-chain and wildcard configurations; padded / cased / per-line / pairs-per-line ladders of allowed values. Later: deep allowed origins with A-labels, digit, hyphenated and 63-byte labels; pre-set response headers (/preset). Round 11: allowed-list and deep-origin ladders serve two sibling requests in alternation."),
    "C19": ("", " Added: two loops over one iterator value; deep trees (nesting 7..33)."),
}


# round 12 and the lock-level model
ADDED12 = {
    "C07": (" + TLC model checking of MwLock.tla (explicit RWMutex: refinement of Middleware.tla, lock discipline, deadlock freedom, termination under fairness) with the recorded gate sequences checked against its lock program + Apalache: the lock discipline as an inductive invariant (MwLockInductive.tla)",
            " Round 12: MwLock.tla makes the RWMutex explicit (readers, writer, announced writers that keep new readers out) and lets the wrapped handler call back into its own "
            "middleware; TLC checks that it REFINES Middleware.tla (PROPERTY MW!Spec), keeps no lock across validation / rendering / w.Header() / the handler, cannot deadlock and, "
            "under weak fairness, that every started call returns; twins holdAcross (rejected by LockFreeOutside and, without it, by deadlock) and checkThenAct (rejected by the "
            "refinement). TraceMiddleware checks every recorded call's gate sequence against the lock program of its method (drift report). Round 13: every other scheduled request goes through a handler wrapped before the schedule starts."),
    "C09": (" + MwLock.tla (lock-level refinement with SetDebug / Reconfigure called from inside a wrapped handler)", " Round 12: MwLock.tla - DebugMachine carries over to the lock-level model by refinement, also when the calls are made by a wrapped handler; deadlock freedom and termination."),
    "C03": ("", " Round 13: persistent handlers wrapped right after construction, a traffic-free passthrough phase before every fourth reuse of the long-lived middleware, alternating order of the two debug modes (all serve-based checks)."),
    "C16": ("", " Round 12: strict subsets of the allowed names padded with 1..16 empty list elements (end, start, between, own lines) in every block. Round 13: in a third of the blocks debug off is reached through SetDebug(true), Reconfigure(nil), Reconfigure(cfg) - SetDebug(false) is never called."),
    "C11": (" + MwLock.tla (no lock held across the wrapped handler, deadlock freedom, termination under fairness)", " Round 12: MwLock.tla model-checked (a handler that calls back into its own middleware is answered); method look-alikes (`options`, `Options`, `OPTION`, `OPTIONSS`, lower-case standard methods, CONNECT, TRACE ...) with preflight / actual / non-CORS header shapes in every block."),
    "C12": ("", " Round 12: in-place edits replace origin-valued fields by an origin nothing allows, and the probe suites offer exactly that origin right after requests from allowed origins."),
    "C13": ("", " Round 12: over-range ports at integer-width boundaries (2^16+1 ... 99999, 10^5, 2^17+80, 2^31-1, 2^32+80, 2^64+80)."),
    "C19": ("", " Round 12: the second stage is not run once the first has established a verdict (an iterator that yields too much made it explode)."),
}


def main():
    props = [json.loads(l) for l in open(os.path.join(VERIF, "properties.jsonl"))]
    checks = []
    na = []
    for p in props:
        pid = p["id"]
        if pid in CLAIMED:
            cat, tech, text, note, ref = CLAIMED[pid]
            if pid in ADDED:
                tech, text = tech + ADDED[pid][0], text + ADDED[pid][1]
            if pid in ADDED12:
                tech, text = tech + ADDED12[pid][0], text + ADDED12[pid][1]
            checks.append({
                "property_id": pid,
                "quick_cmd": "bin/check %s quick" % pid,
                "thorough_cmd": "bin/check %s thorough" % pid,
                "evidence_file": "/verif/evidence/%s.json" % pid,
                "replay_cmd_template": "bin/check %s --replay {path}" % pid,
                "engine": "tlc+go-conformance",
                "level_claimed": {"category": cat, "text": text, "design_ref": ref},
                "level_note": note,
                "technique": tech,
            })
        else:
            na.append({"property_id": pid, "reason": NOT_APPLICABLE.get(pid, NOT_YET)})
    man = {
        "version": 1,
        "setup_cmd": "bin/setup",
        "hooks": {
            "guard": "verif",
            "enable": "none needed: every property is observed through the public API; the only instrumentation "
                      "(scheduler gates on the mutex, C07) is applied at check time to a scratch copy of /repo's working tree",
            "baseline_off_cmd": "cd /repo && GOFLAGS=-mod=mod GOPROXY=off go test -vet=off -count=1 ./...",
            "source_commits": [],
            "add_only": True,
        },
        "engines": [{
            "name": "tlc+go-conformance",
            "path": "/verif/bin/check",
            "serves_properties": sorted(CLAIMED),
            "kind_free_text": "explicit TLA+ specifications (/verif/spec) checked with TLC; bound to the code by replaying "
                              "TLC-generated cases into the real public API (Go driver /verif/harness) and by TLC validation "
                              "of NDJSON traces recorded from real executions",
        }],
        "checks": checks,
        "not_applicable": na,
        "notes": "See DESIGN.md. Exit 0 held / 1 VIOLATION / 2 infrastructure failure. known_findings.json lists genuine defects.",
    }
    with open(os.path.join(VERIF, "MANIFEST.json"), "w") as f:
        json.dump(man, f, indent=1)
        f.write("\n")


NOT_APPLICABLE = {}

if __name__ == "__main__":
    main()
