"""C06 - Config() round-trips: Reconfigure(Config()) is a no-op and constructors agree."""
import lifelib

RADIX_CFG = """SPECIFICATION Spec
CONSTANTS
  Bug = "none"
  MaxLen = 2
  DumpCases = FALSE
  Uni = "full"
INVARIANTS ElemsDenoteSame ElemsSubset RebuildSame
CHECK_DEADLOCK FALSE
"""


def check(c):
    thorough = c.tier == "thorough"
    c.build_driver()
    # M: the round-trip lemma on the radix model: what Elems lists denotes exactly what was inserted,
    #    and a tree rebuilt from Elems answers identically
    c.model_check("RadixMC", RADIX_CFG, tag="RadixMC_roundtrip")
    tot = lifelib.run_life(c, [["-mode", "roundtrip", "-n", "400" if thorough else "120"]] * (4 if thorough else 1),
                           "Config() round trip is not a no-op / constructors disagree")
    c.cov["rule"] = ("seeded accepted configurations (IPv4 / bracketed IPv6 / trailing-dot hosts, wildcard ports and subdomains, "
                     "duplicates, subsuming patterns, * mixed with discrete values, safelisted extras, max-age -1/0, explicit 204) "
                     "x {NewMiddleware(c), NewMiddleware(*m.Config()), zero value + Reconfigure(&c)} x both debug modes, then "
                     "Reconfigure(Config()) on each and a second-generation middleware; fingerprints of a request suite derived "
                     "from the configuration and of the Config() values are compared by TraceLifecycle in TLC")
