"""C06 - Config() round-trips: Reconfigure(Config()) is a no-op and constructors agree."""
import lifelib

RADIX_CFG = """SPECIFICATION Spec
CONSTANTS
  Bug = "none"
  MaxLen = 2
  DumpCases = FALSE
  Uni = "full"
INVARIANTS ElemsDenoteSame ElemsSubset RebuildSame
CHECK_DEADLOCK FALSE
"""


GEN_CFG = """SPECIFICATION Spec
CONSTANTS
  Bug = "none"
  MaxLen = %d
  DumpCases = TRUE
  Uni = "small"
INVARIANTS ElemsDenoteSame ElemsSubset RebuildSame
CONSTRAINT Dump
CHECK_DEADLOCK FALSE
"""


def check(c):
    import json
    thorough = c.tier == "thorough"
    c.build_driver()
    # M: the round-trip lemma on the radix model: what Elems lists denotes exactly what was inserted,
    #    and a tree rebuilt from Elems answers identically
    cases, uni = c.path("rt_cases.ndjson"), c.path("rt_universe.json")
    c.parallel([lambda: c.model_check("RadixMC", RADIX_CFG, tag="RadixMC_roundtrip", workers=8),
                lambda: c.model_check("RadixMC", GEN_CFG % 3, tag="RadixMC_roundtrip_small",
                                      env={"OUT_FILE": cases, "UNIVERSE_FILE": uni}, workers=8, timeout=3000)], max_workers=2)
    # G: every insertion sequence of the 40-pattern sub-universe: NewMiddleware(list) vs NewMiddleware(*Config()) vs the original after
    #    Reconfigure(Config()), on all 84 probe origins (real vs real)
    summ = c.path("rt_gen.json")
    c.run_driver(["c01gen", "-universe", uni, "-cases", cases, "-out", summ, "-roundtrip"], timeout=3000)
    s = json.load(open(summ))
    for mm in (s["rt_mismatches"] or [])[:20]:
        c.violation("Config() round trip changes the allowed origins: patterns %s: %s" % (mm["patterns"], mm["why"]), mm)
    for mm in (s["mismatches"] or [])[:5]:
        # (after Reconfigure(Config()) the original no longer answers what the patterns denote)
        c.violation("after Reconfigure(Config()): origin %s, patterns %s: allowed should be %s" % (mm["origin"], mm["patterns"], mm["expected_allowed"]), mm)
    c.cov["evaluations"] += s["evaluations"]
    c.cov["distinct_nontrivial"] += s["nontrivial"]
    c.cov["traces_validated_against_impl"] += s["rt_cases"]
    c.cov["tlc_enumerated_pattern_lists_round_tripped"] = s["rt_cases"]
    tot = lifelib.run_life(c, [["-mode", "roundtrip", "-n", "400" if thorough else "120"]] * (4 if thorough else 1)
                           + [["-mode", "nearpairs", "-n", "60" if thorough else "16"]],   # constructors agree: New(c) vs New(c') + Reconfigure(&c)
                           "Config() round trip is not a no-op / constructors disagree")
    # T: the VALUE of Config() against NormalForm.tla (what the normal form is, beyond what C06 requires of it): a value that is
    #    not the normal form of the configuration's meaning is model drift; a value that still changes after one round trip is C06
    nft, nfs = c.path("nf.ndjson"), c.path("nf.json")
    c.run_driver(["nf", "-trace", nft, "-out", nfs, "-n", "1500" if thorough else "400"])
    bad, res = c.validate_trace("TraceNormal", "SPECIFICATION Spec\nINVARIANT Final\nCHECK_DEADLOCK FALSE\n", nft, timeout=3000)
    if bad:
        from vlib import read_ndjson
        evs = read_ndjson(nft)
        for idx, why in bad[:40]:
            e = evs[idx - 1]
            if "still changes" in why:
                c.violation("%s: configuration %s" % (why, json.dumps(e["given"])[:600]), {"why": why, "given": e["given"]})
            else:
                c.drift.append("NormalForm.tla: %s: configuration %s" % (why, json.dumps(e["given"])[:400]))
    if res["stats"]["cases"] == 0 or res["stats"]["listy"] == 0:
        raise lifelib.Infra("vacuous normal-form run: %r" % res["stats"])
    c.cov["config_values_checked_against_NormalForm"] = res["stats"]["cases"] * 3
    c.cov["config_values_changed_by_first_round_trip"] = res["stats"]["changed"]
    c.cov["deviation_D1_repeated_wildcard_entries"] = res["stats"]["d1"]
    c.cov["evaluations"] += res["stats"]["cases"] * 3
    c.cov["rule"] = ("seeded accepted configurations (IPv4 / bracketed IPv6 / trailing-dot hosts, wildcard ports and subdomains, "
                     "duplicates, subsuming patterns, * mixed with discrete values, safelisted extras, max-age -1/0, explicit 204) "
                     "x {NewMiddleware(c), NewMiddleware(*m.Config()), zero value + Reconfigure(&c)} x both debug modes, then "
                     "Reconfigure(Config()) on each and a second-generation middleware; fingerprints of a request suite derived "
                     "from the configuration and of the Config() values are compared by TraceLifecycle in TLC")
