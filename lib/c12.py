"""C12 - behaviour is immune to caller-side mutation and to request history."""
import lifelib


def check(c):
    thorough = c.tier == "thorough"
    c.build_driver()
    lifelib.mw_model(c, "TypeOK PassthroughHasDebugOff Atomic", "", [])
    tot = lifelib.run_life(c, [["-mode", "mutate", "-n", "60" if thorough else "14"]] * (4 if thorough else 1),
                           "behaviour changed after caller-side mutation / depends on request history")
    c.cov["rule"] = ("per case three middlewares on two configurations (NewMiddleware, NewMiddleware, zero value + Reconfigure); reference "
                     "fingerprints are taken first; then, in seeded order: in-place writes up to cap over every slice of the Config "
                     "arguments and of Config() results, and the whole probe suite served through a wrapped handler that overwrites in "
                     "place every request- and response-header slice it can reach; after every step ALL middlewares (and one created "
                     "afterwards) are observed and TraceLifecycle requires the reference fingerprint for the unchanged abstract state")
