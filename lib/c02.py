"""C02 - a Fetch-compliant browser's verdict equals what the configuration means."""
import json

from vlib import Infra, read_ndjson

CORS_CFG = """SPECIFICATION Spec
CONSTANTS
  CBug = "%(bug)s"
  NameOrder <- NameOrderDef
  AcrhOK <- AcrhOKElems
  AcrhEcho <- AcrhEchoElems
  CheckPairs = %(pairs)s
INVARIANTS %(invs)s
CHECK_DEADLOCK FALSE
"""


def check(c):
    thorough = c.tier == "thorough"
    c.build_driver()
    # ---- M: the model of the request-handling function against the Fetch algorithms and Permits
    c.model_check("CorsMC", CORS_CFG % dict(bug="none", pairs="FALSE", invs="BrowserVerdictIsMeaning"), tag="CorsMC_C02")
    for bug in ("acamStarCred", "dropAuth"):
        c.negative_twin("CorsMC", CORS_CFG % dict(bug=bug, pairs="FALSE", invs="BrowserVerdictIsMeaning"),
                        tag="CorsMC_neg_" + bug, expect=["BrowserVerdictIsMeaning"])
    # ---- T: real responses, judged by TLC running the Fetch algorithms on them
    total = 400000 if thorough else 30000
    shard = 40000
    done = k = 0
    permitted = 0
    while done < total:
        n = min(shard, total - done)
        trace = c.path("c02_%d.ndjson" % k)
        summ = c.path("c02_%d.json" % k)
        c.run_driver(["c02", "-trace", trace, "-cells", str(n), "-out", summ], env={"VERIF_SEED": str(c.seed * 1000 + k)})
        s = json.load(open(summ))
        bad, res = c.validate_trace("TraceBrowser", "TraceBrowser.cfg", trace, tag="TraceBrowser%d" % k)
        permitted += res["permitted"]
        if bad:
            evs = read_ndjson(trace)
            for idx in bad[:20]:
                e = evs[idx - 1]
                j = idx - 1
                while evs[j]["ev"] != "Config":
                    j -= 1
                c.violation("browser verdict differs from what the configuration permits: origin %s method %s headers %s include=%s pna=%s debug=%s pert=%s" % (
                    e["origin"]["txt"], e["method"], e["hdrs"], e["include"], e["pna"], e["dbg"], e["pert"]),
                    {"config": evs[j]["cfg"], "origin": e["origin"]["txt"], "method": e["method"], "hdrs": e["hdrs"],
                     "include": e["include"], "pna": e["pna"], "debug": e["dbg"], "acrh": e["acrh"], "pre": e["pre"], "act": e["act"]})
        c.cov["evaluations"] += s["cells"]
        c.cov["distinct_nontrivial"] += s["nontrivial"]
        c.cov["traces_validated_against_impl"] += s["configs"]
        if k == 0:
            c.cov["samples"] += s["samples"][:2]
        if s["rejected"]:
            c.drift.append("%d by-construction-valid configurations were rejected" % s["rejected"])
        done += s["cells"]
        k += 1
    if permitted == 0 or permitted == done:
        raise Infra("vacuous: %d of %d cells permitted" % (permitted, done))
    c.cov["permitted_cells"] = permitted
    c.cov["rule"] = ("seeded semantic configurations (credentialed / PNA mode / allow-all, discrete and wildcard origin patterns / "
                     "methods incl. * and normalisable spellings / request headers incl. * with or without Authorization) spelled "
                     "as cors.Config in randomised order, case and multiplicity x browser intents (allowed and near-miss origins, "
                     "methods, header subsets, credentials mode, PNA) x debug on/off x tolerated ACRH perturbations; the real "
                     "preflight and actual responses are judged by Browser!VerdictOn against Browser!Permits in TLC; "
                     "non-trivial = intents with >= 2 unsafe header names or a PNA target")
    c.assumptions += ["the Go projection only tokenises ACAM/ACAH (comma split, OWS trim, ACAH lower-cased)",
                      "browser behaviour is the Fetch standard's CORS-preflight fetch + CORS check + PNA draft's Allow-Private-Network check"]
