"""C02 - a Fetch-compliant browser's verdict equals what the configuration means."""
import json

from vlib import Infra, read_ndjson

CORS_CFG = """SPECIFICATION Spec
CONSTANTS
  CBug = "%(bug)s"
  NameOrder <- NameOrderDef
  AcrhOK <- AcrhOKElems
  AcrhEcho <- AcrhEchoElems
  CheckPairs = %(pairs)s
  DumpSems = %(dumpsems)s
INVARIANTS %(invs)s
CONSTRAINT DumpSem
CHECK_DEADLOCK FALSE
"""


def _report(c, trace, bad):
    evs = read_ndjson(trace)
    for idx in bad[:20]:
        e = evs[idx - 1]
        j = idx - 1
        while evs[j]["ev"] != "Config":
            j -= 1
        c.violation("browser verdict differs from what the configuration permits: origin %s method %s headers %s include=%s pna=%s debug=%s pert=%s" % (
            e["origin"]["txt"], e["method"], e["hdrs"], e["include"], e["pna"], e["dbg"], e["pert"]),
            {"config": evs[j]["cfg"], "origin": e["origin"]["txt"], "method": e["method"], "hdrs": e["hdrs"],
             "include": e["include"], "pna": e["pna"], "debug": e["dbg"], "acrh": e["acrh"], "pre": e["pre"], "act": e["act"]})


def check(c):
    thorough = c.tier == "thorough"
    c.build_driver()
    sems = c.path("sems.ndjson")
    acc = {"permitted": 0, "done": 0}

    def model():
        # M: the model of the request-handling function against the Fetch algorithms and Permits; dumps every semantic configuration
        c.model_check("CorsMC", CORS_CFG % dict(bug="none", pairs="FALSE", invs="BrowserVerdictIsMeaning", dumpsems="TRUE"),
                      tag="CorsMC_C02", env={"OUT_FILE": sems}, workers=8)

    def twins():
        for bug in ("acamStarCred", "dropAuth"):
            c.negative_twin("CorsMC", CORS_CFG % dict(bug=bug, pairs="FALSE", invs="BrowserVerdictIsMeaning", dumpsems="FALSE"),
                            tag="CorsMC_neg_" + bug, expect=["BrowserVerdictIsMeaning"], workers=4)

    def rand_shard(k, n):
        # T: seeded real configurations / intents; the Fetch algorithms run in TLC on the recorded real responses
        trace = c.path("c02_%d.ndjson" % k)
        summ = c.path("c02_%d.json" % k)
        c.run_driver(["c02", "-trace", trace, "-cells", str(n), "-out", summ], env={"VERIF_SEED": str(c.seed * 1000 + k)})
        s = json.load(open(summ))
        bad, res = c.validate_trace("TraceBrowser", "TraceBrowser.cfg", trace, tag="TraceBrowser%d" % k)
        if bad:
            _report(c, trace, bad)
        with c.lock:
            acc["permitted"] += res["permitted"]
            acc["done"] += s["cells"]
            c.cov["evaluations"] += s["cells"]
            c.cov["distinct_nontrivial"] += s["nontrivial"]
            c.cov["traces_validated_against_impl"] += s["configs"]
            if k == 0:
                c.cov["samples"] += s["samples"][:2]
            if s["rejected"]:
                c.drift.append("%d by-construction-valid configurations were rejected" % s["rejected"])

    def gen_shard(k, nsh, stride):
        # G: every semantic configuration of CorsMC x its whole intent universe x perturbations x debug
        trace = c.path("c02gen_%d.ndjson" % k)
        summ = c.path("c02gen_%d.json" % k)
        c.run_driver(["c02gen", "-cases", sems, "-trace", trace, "-out", summ, "-stride", str(stride), "-shard", str(k), "-nshards", str(nsh)],
                     timeout=3000)
        s = json.load(open(summ))
        bad, res = c.validate_trace("TraceBrowser", "TraceBrowser.cfg", trace, tag="TraceBrowserGen%d" % k, timeout=3000)
        if bad:
            _report(c, trace, bad)
        with c.lock:
            acc["permitted"] += res["permitted"]
            acc["done"] += s["cells"]
            c.cov["evaluations"] += s["cells"]
            c.cov["distinct_nontrivial"] += s["nontrivial"]
            c.cov["traces_validated_against_impl"] += s["configs"]
            c.cov["tlc_enumerated_configs_replayed"] = c.cov.get("tlc_enumerated_configs_replayed", 0) + s["configs"]

    total = 400000 if thorough else 30000
    nr = (total + 39999) // 40000
    c.parallel([model, twins] + [lambda k=k: rand_shard(k, min(40000, total - 40000 * k)) for k in range(nr)], max_workers=6)
    nsh, stride = (12, 3) if thorough else (2, 70)
    c.parallel([lambda k=k: gen_shard(k, nsh, stride) for k in range(nsh)], max_workers=6)
    if acc["permitted"] == 0 or acc["permitted"] == acc["done"]:
        raise Infra("vacuous: %d of %d cells permitted" % (acc["permitted"], acc["done"]))
    c.cov["permitted_cells"] = acc["permitted"]
    c.cov["rule"] = ("T: seeded semantic configurations (credentialed / PNA mode / allow-all, discrete and wildcard origin patterns / "
                     "methods incl. * and normalisable spellings / request headers incl. * with or without Authorization) spelled "
                     "as cors.Config in randomised order, case and multiplicity x browser intents (allowed and near-miss origins, "
                     "methods, header subsets, credentials mode, PNA) x debug on/off x tolerated ACRH perturbations. G: every %s "
                     "semantic configuration enumerated by TLC from CorsMC.tla x the WHOLE abstract intent universe (2 origins x 6 methods "
                     "x 8 header subsets x credentials mode x PNA) x 5 perturbations x debug. The real preflight and actual responses are "
                     "judged by Browser!VerdictOn against Browser!Permits in TLC; non-trivial = intents with >= 2 unsafe header names or a "
                     "PNA target (T) / half of the cells (G)") % ("3rd" if thorough else "70th")
    c.assumptions += ["the Go projection only tokenises ACAM/ACAH (comma split, OWS trim, ACAH lower-cased)",
                      "browser behaviour is the Fetch standard's CORS-preflight fetch + CORS check + PNA draft's Allow-Private-Network check"]
