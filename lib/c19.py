"""C19 - cfgerrors.All yields exactly the leaf errors and honours early exit."""
import json

from vlib import Infra, read_ndjson
import cfglib

MC = """SPECIFICATION Spec
CONSTANTS
  EBug = "%s"
  MaxNodes = %d
  DumpCases = %s
INVARIANT Correct
CONSTRAINT Dump
CHECK_DEADLOCK FALSE
"""


def check(c):
    thorough = c.tier == "thorough"
    c.build_driver()
    trees = c.path("trees.ndjson")
    c.model_check("ErrTreeMC", MC % ("none", 11 if thorough else 9, "TRUE"), tag="ErrTreeMC", env={"OUT_FILE": trees}, workers=1, timeout=3000)   # one worker: deep trees overflow the stack of the parallel initial-state generator
    c.negative_twin("ErrTreeMC", MC % ("innerOnly", 5, "FALSE"), tag="ErrTreeMC_neg_innerOnly", workers=1)
    trace = c.path("c19.ndjson")
    summ = c.path("c19.json")
    c.run_driver(["c19", "-cases", trees, "-trace", trace, "-out", summ])
    s = json.load(open(summ))
    bad, res = c.validate_trace("TraceErrTree", "TraceErrTree.cfg", trace, timeout=3000)
    if bad:
        evs = read_ndjson(trace)
        for idx, why in bad[:30]:
            e = evs[idx - 1]
            c.violation("%s: tree %s, consumer breaks after %d: direct=%s late=%d panic=%s range=%s panic=%s" % (
                why, json.dumps(e["tree"]), e["k"], e["out"], e["late"], e["panicked"], e["rout"], e["rpanicked"]), e)
    if res["stats"]["early"] == 0:
        raise Infra("vacuous C19 run")
    c.cov["evaluations"] += s["runs"]
    c.cov["distinct_nontrivial"] += res["stats"]["early"]
    c.cov["traces_validated_against_impl"] += s["trees"]
    c.cov["samples"] += (s["samples"] or [])[:2]
    c.cov["exhaustive"] = True
    # second sentence: for errors returned by NewMiddleware / Reconfigure, count(All) = number of leaves >= distinct violations
    # (not run when the iterator is already known to be wrong on the generated trees: the verdict is established, and an iterator
    # that yields too much - seeded/C19-12 replays the leftovers of every abandoned loop - makes the configuration traces explode)
    if c.violations:
        c.cov["second_sentence"] = "not run: the first stage already found violations"
    else:
        cfglib.run(c, "C19", "cfgerrors.All on a validation error", thorough)
    c.cov["rule"] = ("every join tree with <= %d nodes (all shapes: single leaves, joins of one, nested joins; generated and model-checked by "
                     "TLC) x every break position 1..leaves+1, rebuilt with the real errors.Join over distinguishable leaves and iterated with "
                     "the real cfgerrors.All (direct call with a counting consumer + range loop with break); TLC requires the first k leaves, "
                     "no late yield, no panic; non-trivial = runs that break before the last leaf. Second sentence: TraceConfig (Prop C19) on "
                     "the configuration traces of C04/C05") % (11 if thorough else 9)
