"""C15 - config lists are sets: order, duplicates and header-name case are irrelevant."""
import lifelib
import cfglib


def check(c):
    thorough = c.tier == "thorough"
    c.build_driver()
    # M: at atom level a configuration's meaning is defined on SETS (Config.tla), and the radix model answers identically for
    #    every insertion order and multiplicity (RadixMC: Refines holds on every reachable insertion sequence)
    c.model_check("RadixMC", """SPECIFICATION Spec
CONSTANTS
  Bug = "none"
  MaxLen = 2
  DumpCases = FALSE
  Uni = "full"
INVARIANTS Refines
CHECK_DEADLOCK FALSE
""", tag="RadixMC_order")
    tot = lifelib.run_life(c, [["-mode", "twins", "-n", "150" if thorough else "20"]] * (8 if thorough else 3),
                           "two configurations that differ only in order / repetition / letter case / normalisable spelling / safelisted entries answer differently")
    c.cov["rule"] = ("seeded accepted configurations x {two independently re-spelled twins (order, duplicates, header-name case, "
                     "normalisable method spellings, safelisted extras, position of * and Authorization) + EVERY permutation of each "
                     "list field (up to 24 per field; sampled beyond length 4)}; all twins are observed in both debug modes with a request "
                     "suite derived from the configuration; TraceLifecycle (TLC) requires one fingerprint per abstract state")
