"""C17 - no input can crash configuration or request handling."""
import json
import os

from vlib import Infra, read_ndjson
import c14 as c14mod

LEVEL = "exploration"
COST_CFG = """SPECIFICATION Spec
CONSTANTS
  Slack = 1
  Budget = 12
INVARIANT Final
CHECK_DEADLOCK FALSE
"""


def scan(c, trace, what):
    bad, res = c.validate_trace("TraceCost", COST_CFG, trace, tag="TracePanic_" + "".join(ch if ch.isalnum() else "_" for ch in what)[:30], timeout=3000)
    if bad:
        evs = read_ndjson(trace)
        for idx, why in bad[:20]:
            e = evs[idx - 1]
            e = {k: (v if not isinstance(v, (str, list, dict)) else json.dumps(v)[:300]) for k, v in e.items()}
            c.violation("panic during %s: %s" % (what, json.dumps(e)[:600]), e)
    return res


def check(c):
    thorough = c.tier == "thorough"
    c.build_driver()
    # M: index arithmetic of the modelled scanners stays in bounds on every bounded input
    c.model_check("AcrhMC", c14mod.MC % dict(bug="none", lines=2, bytes=4, dump="FALSE"), tag="AcrhMC_inbounds")
    total = 0
    # 1. extreme sizes and arbitrary Config values
    t1, s1 = c.path("c17x.ndjson"), c.path("c17x.json")
    c.run_driver(["c17x", "-trace", t1, "-out", s1, "-max", str(1 << 20 if thorough else 1 << 17)], timeout=3000)
    s = json.load(open(s1))
    scan(c, t1, "extreme-size requests / arbitrary Config values")
    total += s["request_calls"] + s["config_calls"]
    # 2. junk + structured request universes (zero-length / nil header slices included)
    for k in range(3 if thorough else 1):
        t2, s2 = c.path("c17serve%d.ndjson" % k), c.path("c17serve%d.json" % k)
        c.run_driver(["serve", "-prop", "C03", "-mode", "both", "-configs", "14", "-requests", "400", "-big", "-trace", t2, "-out", s2],
                     env={"VERIF_SEED": str(c.seed * 1000 + k)})
        scan(c, t2, "junk / structured requests")
        total += json.load(open(s2))["served"]
    # 3. labelled configuration atoms (every spelling, random mixes)
    t3, s3 = c.path("c17cfg.ndjson"), c.path("c17cfg.json")
    c.run_driver(["cfgs", "-atoms", os.path.join(c.specdir, "atoms.json"), "-trace", t3, "-out", s3, "-n", "6000"])
    scan(c, t3, "configuration validation")
    total += json.load(open(s3))["configs"] * 3
    c.cov["evaluations"] = total
    c.cov["distinct_nontrivial"] = total
    c.cov["samples"] = [{"request": "OPTIONS with Origin / ACRM / ACRH / ACRPN absent, nil, zero-length, 1 MiB, 10^5 elements, 10^5 lines, NUL, non-ASCII"},
                        {"config": "arbitrary strings (junk bytes, 5000-byte names, `*.`, `https://[`, huge integers) in every list field"}]
    c.cov["rule"] = ("union of the generators: extreme-size values (1 byte .. 1 MiB, 1 .. 10^5 elements / field lines) in each CORS request "
                     "header under 14 configurations x both debug modes x OPTIONS/GET; 3000 Config values of arbitrary strings and "
                     "integers through NewMiddleware / Reconfigure / Config / cfgerrors.All; the junk and structured request universes of "
                     "C03 (header keys present with nil / zero-length slices included); every atom spelling of spec/atoms.json. Every call "
                     "runs under recover; a recovered panic is a Panic event for which the trace specification has no action")
    c.assumptions += ["absence of Go panics is OBSERVED on the explored inputs, not proved; the specification proves the modelled scanners' index "
                      "arithmetic in bounds for bounded inputs and steers the generators to the boundaries"]
