"""Shared by the per-request properties C03 / C10 / C11 / C16: Serve traces validated by TraceServe.tla."""
import json

import os

from vlib import Infra, Crash, read_ndjson

CORS_CFG = """SPECIFICATION Spec
CONSTANTS
  CBug = "%(bug)s"
  NameOrder <- NameOrderDef
  AcrhOK <- AcrhOKElems
  AcrhEcho <- AcrhEchoElems
  CheckPairs = %(pairs)s
  DumpSems = %(dumpsems)s
INVARIANTS %(invs)s
CONSTRAINT DumpSem
CHECK_DEADLOCK FALSE
"""
SERVE_CFG = """SPECIFICATION Spec
CONSTANTS
  Prop = "%s"
  PBug = "none"
INVARIANT Final
CHECK_DEADLOCK FALSE
"""


def model(c, invs, twins, pairs=False, tag=""):
    thunks = [lambda: c.model_check("CorsMC", CORS_CFG % dict(bug="none", pairs="TRUE" if pairs else "FALSE", invs=invs, dumpsems="FALSE"),
                                    tag="CorsMC_%s%s" % (c.pid, tag), timeout=3000, workers=8)]
    for bug, expect in twins:
        thunks.append(lambda bug=bug, expect=expect: c.negative_twin(
            "CorsMC", CORS_CFG % dict(bug=bug, pairs="TRUE" if pairs else "FALSE", invs=invs, dumpsems="FALSE"),
            tag="CorsMC_neg_%s" % bug, expect=expect, timeout=1200, workers=4))
    c.parallel(thunks)


def describe(e):
    if e.get("ev") == "LateChange":
        return "%s (%s, debug=%s, headers %s): before %s after %s" % (e["what"], e["m"], e["dbg"], json.dumps(e["req"])[:150], json.dumps(e["before"])[:200], json.dumps(e["after"])[:200])
    if e.get("ev") == "Hang":
        return "%s (%s, debug=%s, headers %s)" % (e["what"], e["m"], e["dbg"], json.dumps(e["req"])[:200])
    if e.get("buffered"):
        return "behind a BUFFERING writer (one that sends the header map as it is when the handler chain has returned, like http.TimeoutHandler): " + describe({k: v for k, v in e.items() if k != "buffered"})
    lay = {1: "behind a layer that had set ACAO to the request's own Origin slice: EMITTED by the middleware:",
           2: "behind an outer allow-all middleware of this library: EMITTED by the inner one:"}.get(e.get("layer"), "")
    if lay:
        return "%s Origin=%r debug=%s %s %s (headers already there: %s; final: %s)" % (
            e["m"], [o[:120] for o in e["origin"]], e["dbg"], lay, json.dumps(e["resp"]["hdrs"])[:300], json.dumps(e["pre"])[:200], json.dumps(e["raw"])[:300])
    return "%s %s Origin=%r ACRM=%r ACRH=%r ACRPN=%r debug=%s -> status %s headers %s" % (
        e["m"], "", [o[:120] for o in e["origin"]], [x[:60] for x in e["acrm"]], [x[:80] for x in e["acrh"]],
        e["acrpn"], e["dbg"], e["resp"]["status"], json.dumps(e["raw"])[:400])


CONFORM_CFG = """SPECIFICATION Spec
CONSTANTS
  CBug = "none"
  NameOrder <- TraceNameOrder
  AcrhOK <- AcrhOKBytes
  AcrhEcho <- AcrhEchoTokens
INVARIANT Final
CHECK_DEADLOCK FALSE
"""


def run_serve(c, prop, shards, what, conform=False):
    """shards: list of driver-argument lists (run concurrently). Returns aggregated stats."""
    tot = {"served": 0, "configs": 0, "a": 0, "b": 0, "preflights": 0}

    def one(k, args):
        trace = c.path("%s_%d.ndjson" % (prop, k))
        summ = c.path("%s_%d.json" % (prop, k))
        # shards of one seed share the seed (they deal out the same configuration list)
        sd = c.seed * 1000 + (k // int(args[args.index("-nshards") + 1]) if "-nshards" in args else k)
        try:
            c.run_driver(["serve", "-prop", prop, "-trace", trace, "-out", summ] + args, env={"VERIF_SEED": str(sd)})
            s = json.load(open(summ))
        except Crash as e:
            # the process died inside the code under test (a Go fatal error cannot be recovered): that is C17's business; what
            # was recorded before is still judged (the trace is cut at its last complete line)
            if c.pid == "C17":
                raise
            c.drift.append("the serve driver died inside the code under test (C17's business): %s" % str(e)[:300])
            data = open(trace, "rb").read() if os.path.exists(trace) else b""
            data = data[:data.rfind(b"\n") + 1]
            if data.count(b"\n") < 10:
                raise Infra("the serve driver died before recording anything: %s" % str(e)[:300])
            with open(trace, "wb") as f:
                f.write(data)
            s = {"served": data.count(b'"ev":"Serve"'), "configs": data.count(b'"ev":"Config"'), "preflights": 1, "panics": 0, "rejected": 0, "samples": []}
        bad, res = c.validate_trace("TraceServe", SERVE_CFG % prop, trace, tag="TraceServe_%s_%d" % (prop, k))
        if s.get("hung") and not bad:
            # the run was cut short by a call into the library that never returned and that this property's predicate does not
            # judge: no verdict
            raise Infra("the serve driver stopped early: %s" % s.get("hang", "a re-entrant handler never returned"))
        evs = read_ndjson(trace) if (bad or res.get("known")) else None
        if conform:
            # full conformance of the request-handling model (Cors!Respond + ReqParse + Acrh) with the recorded responses
            dr, cres = c.validate_trace("TraceConform", CONFORM_CFG, trace, tag="TraceConform_%s_%d" % (prop, k))
            with c.lock:
                c.cov["model_conformance_compared"] = c.cov.get("model_conformance_compared", 0) + cres["stats"]["compared"]
                c.cov["model_conformance_drift"] = c.cov.get("model_conformance_drift", 0) + len(dr)
            if dr:
                evs = evs or read_ndjson(trace)
                for idx in dr[:5]:
                    c.drift.append("Cors!Respond predicts a different response: " + describe(evs[idx - 1])[:400])
        return k, s, bad, res, evs

    results = c.parallel([lambda k=k, args=args: one(k, args) for k, args in enumerate(shards)], max_workers=4)
    for k, s, bad, res, evs in results:
        if res.get("known"):
            listed = [f for f in c.findings if f["property"] == c.pid and f["status"] == "open"
                      and f.get("matcher", {}).get("classifier") == "^C03isF4$"]
            for idx in res["known"][:200]:
                e = evs[idx - 1]
                if listed:
                    msg = "%s [%s]" % (listed[0]["id"], listed[0]["summary"][:160])
                    if msg not in c.known:
                        c.known.append(msg)
                    c.cov.setdefault("known_finding_events", 0)
                    c.cov["known_finding_events"] += 1
                else:
                    c.violations.append({"what": "%s: %s" % (what, describe(e)), "replay": {"event": e}})
        for idx in bad[:25]:
            e = evs[idx - 1]
            j = idx - 1
            while j >= 0 and evs[j]["ev"] != "Config":
                j -= 1
            c.violation("%s: %s" % (what, describe(e)), {"config": evs[j].get("cfg"), "event": {k2: e[k2] for k2 in e if k2 not in ("o1b", "o1u", "acaob")}})
        tot["served"] += s["served"]
        tot["configs"] += s["configs"]
        tot["preflights"] += s["preflights"]
        tot["a"] += res["stats"]["a"]
        tot["b"] += res["stats"]["b"]
        if s["panics"]:
            c.drift.append("%d panics recorded (C17's business)" % s["panics"])
        if s["rejected"]:
            c.drift.append("%d by-construction-valid configurations rejected" % s["rejected"])
        if k == 0:
            c.cov["samples"] += (s.get("samples") or [])[:1]
    c.cov["evaluations"] += tot["served"]
    c.cov["traces_validated_against_impl"] += tot["configs"]
    return tot
