"""C18 - per-request allocations do not grow with attacker-controlled sizes."""
import json

from vlib import Infra, read_ndjson

LEVEL = "exploration"
COST_CFG = """SPECIFICATION Spec
CONSTANTS
  Slack = 1
  Budget = 12
INVARIANT Final
CHECK_DEADLOCK FALSE
"""


def check(c):
    thorough = c.tier == "thorough"
    c.build_driver()
    trace = c.path("c18.ndjson")
    summ = c.path("c18.json")
    c.run_driver(["c18", "-trace", trace, "-out", summ] + (["-big"] if thorough else []), timeout=3000)
    s = json.load(open(summ))
    bad, res = c.validate_trace("TraceCost", COST_CFG, trace, timeout=3000)
    if bad:
        evs = read_ndjson(trace)
        seen = set()
        for idx, why in bad[:60]:
            e = evs[idx - 1]
            key = (e["cfg"], e["dbg"], e["field"], e["shape"], e["method"])
            if key in seen:
                continue
            seen.add(key)
            ladder = [(x["size"], x["allocs"]) for x in evs if x["ev"] == "Alloc" and (x["cfg"], x["dbg"], x["field"], x["shape"], x["method"]) == key]
            c.violation("%s: configuration %s debug=%s %s with %s (%s): (size, allocations) = %s" % (
                why, e["cfg"], e["dbg"], e["method"], e["field"], e["shape"], ladder), {"path": list(key), "ladder": ladder})
    if res["stats"]["measurements"] == 0:
        raise Infra("no measurement")
    c.cov["evaluations"] = res["stats"]["measurements"]
    c.cov["distinct_nontrivial"] = res["paths"]
    c.cov["max_allocs_seen"] = res["stats"]["maxAllocs"]
    c.cov["samples"] = [e for e in read_ndjson(trace)[:2000:411]]
    c.cov["traces_validated_against_impl"] = 1
    c.cov["rule"] = ("9 configuration kinds (allow-all, discrete, * headers anonymous, * headers credentialed, discrete credentialed + PNA, 128 allowed names, 121-deep chain of nested allowed origins plain/credentialed, subdomain wildcard) x "
                     "debug on/off x OPTIONS/GET x {Origin, ACRM, ACRH} x value shapes (bytes, elements, empty elements, field lines, empty "
                     "lines, leading OWS, allowed names followed by junk, allowed names padded in every tolerated way, allowed origins 1..120 labels deep) x size ladder 1..10^4 (thorough: ..10^5 elements / 1 MiB); heap "
                     "allocations per ServeHTTP measured with testing.AllocsPerRun on a reusable writer; TraceCost (TLC) requires per path "
                     "allocs(size) <= allocs(smallest) + 1 and <= 12; distinct_nontrivial = number of paths")
    c.assumptions += ["the decision is a MEASUREMENT; the specification supplies the path structure and the size-free budget (DESIGN.md section 9)",
                      "a single size-proportional allocation keeps the count constant and is not a violation of the property as worded"]
