"""C03 - CORS response headers are well-formed and never over-grant, for any request."""
import json

from vlib import Infra
import servelib

RP_CFG = """SPECIFICATION Spec
CONSTANTS
  PBug = "%s"
  MaxTail = %d
  DumpCases = %s
INVARIANTS ParseInBounds LenientSound LenientComplete
CONSTRAINT Dump
CHECK_DEADLOCK FALSE
"""


def check(c):
    thorough = c.tier == "thorough"
    c.build_driver()
    out = {}

    def cors_model():
        # M: the C03 conjuncts as invariants of Cors!Respond over the abstract request universe
        servelib.model(c, "HeadersWellFormed", [("echoLast", ["HeadersWellFormed"]), ("f4", ["HeadersWellFormed"])])

    def reqparse():
        # M + G: the byte-level model of the lenient request-side scanner (ReqParse.tla): LenientSound / LenientComplete /
        # ParseInBounds on every byte string of the bounded universe, each replayed through the real middleware
        rcases = c.path("reqparse.ndjson")
        c.model_check("ReqParseMC", RP_CFG % ("none", 6 if thorough else 5, "TRUE"), tag="ReqParseMC",
                      env={"OUT_FILE": rcases}, timeout=3000, workers=6)
        if thorough:   # one byte deeper at model level only (5.4 M strings; the replay stops at 6 bytes)
            c.model_check("ReqParseMC", RP_CFG % ("none", 7, "FALSE"), tag="ReqParseMC_7", timeout=3000, workers=8)
        c.negative_twin("ReqParseMC", RP_CFG % ("portJunk", 6, "FALSE"), tag="ReqParseMC_neg_portJunk", expect=["LenientSound"], workers=4)
        rsum = c.path("c03gen.json")
        c.run_driver(["c03gen", "-cases", rcases, "-out", rsum], timeout=3000)
        out["rs"] = json.load(open(rsum))

    def serve():
        # T: real responses to junk and structured requests, judged by TraceServe!C03ok
        n = 8 if thorough else 2
        shards = [["-mode", "both", "-configs", "14", "-requests", "400" if thorough else "250"] for _ in range(n)]
        out["tot"] = servelib.run_serve(c, "C03", shards, "response headers violate C03", conform=True)

    c.parallel([cors_model, reqparse, serve], max_workers=3)
    rs, tot = out["rs"], out["tot"]
    for v in (rs["violations"] or []):
        c.violation("Origin %r is echoed although it is not the serialization of an allowed origin" % v["origin"], v)
    if rs.get("panics"):
        c.drift.append("%d panics while replaying the ReqParse universe (C17's business): %s" % (len(rs["panics"]), rs["panics"][0]))
    if rs["drift"]:
        c.drift.append("ReqParse.tla differs from the real scanner/tree on %d of %d byte strings, e.g. %s" % (
            rs["drift"], rs["cases"], json.dumps(rs["drifts"][:2])))
    if rs["members"] == 0:
        raise Infra("vacuous ReqParse replay")
    if rs["f4_instances"] and not any(f["id"] == "F4" and f["status"] == "open" for f in c.findings):
        c.violation("bracketed non-IPv6 hosts are echoed (finding F4 is not listed as open)", {"instances": rs["f4_instances"]})
    c.cov["reqparse_strings_replayed"] = rs["cases"]
    c.cov["reqparse_f4_instances"] = rs["f4_instances"]
    c.cov["evaluations"] += rs["evaluations"]
    if tot["a"] == 0 or tot["preflights"] == 0:
        raise Infra("vacuous C03 run: %r" % tot)
    c.cov["distinct_nontrivial"] = tot["a"]
    c.cov["responses_with_acao"] = tot["a"]
    c.cov["preflight_requests"] = tot["b"]
    c.cov["rule"] = ("T: 8 fixed configuration kinds + seeded random ones x both debug modes x (structured request universe + junk "
                     "requests: mutated allowed origins, multi-valued/empty/zero-length headers, over-long values, NUL/non-ASCII, "
                     "odd ports, any method); every recorded response judged by TraceServe!C03ok in TLC (strict OriginSyntax!"
                     "SerializedOrigin + Origins!Allowed on the raw bytes); non-trivial = responses that carry ACAO. G: every byte "
                     "string of <= %d bytes over {a,1,0,.,:,/,[,],A} after `h://` (the universe on which ReqParse.tla is model-checked) "
                     "sent as Origin under a 5-pattern configuration and under allow-all; echo / scanner acceptance compared with the "
                     "model and with the strict meaning") % (6 if thorough else 5)
    c.assumptions += ["Go projection: header abbreviations, comma tokenisation of list headers, byte codes of Origin/ACAO"]
