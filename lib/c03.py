"""C03 - CORS response headers are well-formed and never over-grant, for any request."""
from vlib import Infra
import servelib


def check(c):
    thorough = c.tier == "thorough"
    c.build_driver()
    servelib.model(c, "HeadersWellFormed", [("echoLast", ["HeadersWellFormed"]), ("f4", ["HeadersWellFormed"]),
                                              ("acamStarCred", None) if False else ("leakOnFail", None)][:2] + [])
    n = 8 if thorough else 2
    shards = [["-mode", "both", "-configs", "14", "-requests", "400" if thorough else "250"] for _ in range(n)]
    tot = servelib.run_serve(c, "C03", shards, "response headers violate C03")
    if tot["a"] == 0 or tot["preflights"] == 0:
        raise Infra("vacuous C03 run: %r" % tot)
    c.cov["distinct_nontrivial"] = tot["a"]
    c.cov["responses_with_acao"] = tot["a"]
    c.cov["preflight_requests"] = tot["b"]
    c.cov["rule"] = ("8 fixed configuration kinds + seeded random ones x both debug modes x (structured request universe + junk "
                     "requests: mutated allowed origins, multi-valued/empty/zero-length headers, over-long values, NUL/non-ASCII, "
                     "odd ports, any method); every recorded response judged by TraceServe!C03ok in TLC (strict OriginSyntax!"
                     "SerializedOrigin + Origins!Allowed on the raw bytes); non-trivial = responses that carry ACAO")
    c.assumptions += ["Go projection: header abbreviations, comma tokenisation of list headers, byte codes of Origin/ACAO"]
