"""C08 - a rejected Reconfigure leaves the middleware exactly as it was."""
import lifelib


def check(c):
    thorough = c.tier == "thorough"
    c.build_driver()
    lifelib.mw_model(c, "TypeOK PassthroughHasDebugOff", "RejectedIsNoOp", [])
    tot = lifelib.run_life(c, [["-mode", "reject", "-n", "120" if thorough else "25"]] * (3 if thorough else 1),
                           "a rejected Reconfigure changed the observable state")
    c.cov["rule"] = ("prior states (zero value, Reconfigure(nil), configurations A/B and seeded random accepted configurations, debug on/off) "
                     "x 24 invalid configurations (one violation per field and kind, many violations at once, violations only in the "
                     "last-validated field or only in ExtraConfig with all other fields valid and different); after every rejected "
                     "Reconfigure the probe-suite fingerprint (all responses), Config() and the debug probe are compared with the "
                     "state's reference by TraceLifecycle in TLC; non-trivial = observations compared with a reference")
