"""Shared by C04 / C05 / C19(second sentence): Validate traces judged by TraceConfig.tla."""
import json

from vlib import Infra, read_ndjson

MC_CFG = """SPECIFICATION Spec
CONSTANTS
  MaxList = %d
  DumpCases = TRUE
INVARIANTS FormulationsAgree BaseIsAcceptable
CONSTRAINT Dump
CHECK_DEADLOCK FALSE
"""
TC_CFG = """SPECIFICATION Spec
CONSTANT Prop = "%s"
INVARIANT Final
CHECK_DEADLOCK FALSE
"""


def run(c, prop, what, thorough, only=None):
    """only: predicate on the offending event selecting what this property owns (None = all)."""
    import os
    cases = c.path("cfgcases.ndjson")
    c.model_check("ConfigMC", MC_CFG % 2, tag="ConfigMC", env={"OUT_FILE": cases}, workers=4)
    atoms = os.path.join(c.specdir, "atoms.json")
    shards = 4 if thorough else 1
    tot = {"configs": 0, "accepted": 0, "rejected": 0, "multi": 0, "replayed": 0}
    for k in range(shards):
        trace = c.path("cfg_%d.ndjson" % k)
        summ = c.path("cfg_%d.json" % k)
        c.run_driver(["cfgs", "-atoms", atoms, "-trace", trace, "-out", summ, "-n", "20000" if thorough else "5000",
                      "-cases", cases, "-stride", "1" if thorough else "12"], env={"VERIF_SEED": str(c.seed * 1000 + k)})
        s = json.load(open(summ))
        bad, res = c.validate_trace("TraceConfig", TC_CFG % prop, trace, tag="TraceConfig_%s_%d" % (prop, k), timeout=3000)
        if bad:
            evs = read_ndjson(trace)
            seen = set()
            for idx, why in bad[:60]:
                e = evs[idx - 1]
                if only is not None and not only(e, why):
                    continue
                key = (why, json.dumps(e["cfg"], sort_keys=True))
                if key in seen:
                    continue
                seen.add(key)
                c.violation("%s: %s (via %s): config %s -> ok=%s errors %s" % (
                    what, why, e["via"], json.dumps(e["cfg"])[:500], e["ok"], json.dumps([(x["t"], x["v"], x["r"]) for x in e["errs"]])[:500]),
                    {"why": why, "via": e["via"], "cfg": e["cfg"], "ok": e["ok"], "errs": e["errs"], "msg": e.get("msg")})
        tot["configs"] += s["configs"]
        tot["replayed"] += s["replayed_tlc_cases"]
        for f in ("accepted", "rejected", "multi"):
            tot[f] += res["stats"][f]
        if k == 0:
            c.cov["samples"] += (s["samples"] or [])[:2]
    if tot["accepted"] == 0 or tot["rejected"] == 0:
        raise Infra("vacuous configuration run: %r" % tot)
    c.cov["evaluations"] += tot["accepted"] + tot["rejected"]
    c.cov["distinct_nontrivial"] += tot["multi"]
    c.cov["traces_validated_against_impl"] += tot["configs"]
    c.cov["accepted_calls"] = tot["accepted"]
    c.cov["rejected_calls"] = tot["rejected"]
    c.cov["tlc_enumerated_configs_replayed"] = tot["replayed"]
    return tot

RULE = ("configurations assembled from the labelled atoms of spec/atoms.json (40 atom classes, 202 concrete spellings incl. `*.com.`, "
        "`*.co.uk:*`, mixed-case forbidden names, junk bytes): every spelling alone in list positions 1-3; seeded random mixes "
        "(clean / partly defective / heavily defective, boundary integers, all switch combinations); and the configurations "
        "enumerated by TLC from ConfigMC.tla (all origin lists of <= 2 atoms x 32 switch combinations; all Methods x RequestHeaders x "
        "ResponseHeaders lists of <= 2 atoms x Credentialed; boundary integers), sampled by stride in the quick tier. Each goes through "
        "NewMiddleware, Reconfigure on a passthrough and Reconfigure on a configured middleware; TLC judges every call; "
        "non-trivial = calls with >= 2 simultaneous violations")
