"""C16 - with debug off, preflight responses disclose nothing beyond what was asked."""
from vlib import Infra
import servelib


def check(c):
    thorough = c.tier == "thorough"
    c.build_driver()
    servelib.model(c, "NoDisclosure", [("leakOnFail", ["NoDisclosure"])])
    n = 8 if thorough else 2
    shards = [["-mode", "both", "-configs", "14", "-requests", "400" if thorough else "250"] for _ in range(n)]
    tot = servelib.run_serve(c, "C16", shards, "preflight response discloses more than was asked (debug off)")
    # "debug off" also means: off according to the calls made. SetDebug(false) racing with other calls (ConcMC.tla scenarios that
    # contain it), under every schedule: afterwards failing preflights must be the bare ones of a debug-off state
    import conclib
    c.instrument_mutexes()
    gated = c.build_driver(tags=["verifgates"], name="driver_gates")
    conclib.run_conc(c, gated, width=2, need="setdebug:false")
    if tot["a"] == 0 or tot["b"] == 0:
        raise Infra("vacuous C16 run: %r" % tot)
    c.cov["distinct_nontrivial"] = tot["a"] + tot["b"]
    c.cov["succeeding_preflights_debug_off"] = tot["a"]
    c.cov["failing_preflights_debug_off"] = tot["b"]
    c.cov["rule"] = ("fixed configuration kinds + seeded random ones x (structured universe + junk requests); every preflight served with "
                     "debug off is judged by TraceServe!C16ok in TLC: failing => no Access-Control-* header and one status per "
                     "(configuration, block); succeeding => only *, true, max-age and tokens the request supplied; "
                     "non-trivial = preflights with debug off")
