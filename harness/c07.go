package main

import (
	"slices"
	"sort"
	"encoding/json"
	"crypto/sha256"
	"encoding/hex"
	"flag"
	"fmt"
	"net/http"
	"os"
	"strings"
	"sync"
	"sync/atomic"
	"time"

	"github.com/jub0bs/cors"
)

// ---------------------------------------------------------------- sequentialising schedule controller
//
// Exactly one logical thread runs at a time. A thread runs from gate to gate; at a gate it reports
// "<kind>" to the controller and parks until it is stepped again. Gates are: before each mutex
// acquire / after each release (check-time instrumentation), ResponseWriter.Header / WriteHeader /
// Write, and the entry of the wrapped handler. A thread is never parked while holding the mutex.

type ctlEvent struct {
	t    *lthread
	kind string // gate kind, or "done"
}

type lthread struct {
	id       string
	fn       func()
	resume   chan struct{}
	started  bool
	done     bool
	gates    []string
	held     int    // mutexes this thread holds (counted at the gates around acquire / release)
	panicked string // the thread's function panicked (a crash of request handling / of a method: C17)
}

type controller struct {
	yield chan ctlEvent
	cur   *lthread
}

func (c *controller) gate(kind string) {
	t := c.cur
	if t == nil {
		return // free-running code outside a controlled run
	}
	switch kind {
	case "Atomic:pre", "AtomicW:post":
		if t.held > 0 {
			return // never park a thread inside a critical section: that would be the instrumentation's deadlock, not the code's
		}
	case "Unlock:post", "RUnlock:post":
		t.held--
	}
	t.gates = append(t.gates, kind)
	c.yield <- ctlEvent{t, kind}
	<-t.resume
	if kind == "Lock:pre" || kind == "RLock:pre" {
		t.held++ // the acquire follows immediately; no other thread runs until the next gate
	}
}

// step runs t until its next gate or its completion and returns what it reached.
func (c *controller) step(t *lthread) (string, bool) {
	c.cur = t
	if !t.started {
		t.started = true
		go func() {
			<-t.resume
			func() {
				defer func() {
					if p := recover(); p != nil {
						t.panicked = fmt.Sprint(p)
					}
				}()
				t.fn()
			}()
			c.yield <- ctlEvent{t, "done"}
		}()
	}
	t.resume <- struct{}{}
	select {
	case ev := <-c.yield:
		if ev.t != t {
			fatal("controller: event from %s while stepping %s", ev.t.id, t.id)
		}
		if ev.kind == "done" {
			t.done = true
		}
		c.cur = nil
		return ev.kind, true
	case <-time.After(5 * time.Second):
		return "", false // the thread blocked: the code holds a lock across a gate
	}
}

// gated ResponseWriter
type gatedRW struct {
	rec *rec
	c   *controller
}

func (g *gatedRW) Header() http.Header         { g.c.gate("Header"); return g.rec.Header() }
func (g *gatedRW) WriteHeader(code int)        { g.c.gate("WriteHeader"); g.rec.WriteHeader(code) }
func (g *gatedRW) Write(b []byte) (int, error) { g.c.gate("Write"); return g.rec.Write(b) }

// ---------------------------------------------------------------- scenario vocabulary

type wop struct {
	Kind string // reconf | setdebug | config
	Cfg  string // A | B | nil | invalid
	B    bool
}

func (o wop) String() string {
	switch o.Kind {
	case "reconf":
		return "reconf:" + o.Cfg
	case "setdebug":
		return fmt.Sprintf("setdebug:%v", o.B)
	}
	return "config"
}

type c07env struct {
	cfgA, cfgB, cfgBad cors.Config
	reqs               []reqSpec // request kinds
}

func newC07env() *c07env {
	e := &c07env{cfgA: plainConfig(semA()), cfgB: plainConfig(semB()), cfgBad: invalidConfigs()[12].Cfg}
	add := func(m string, kv ...string) {
		h := http.Header{}
		for i := 0; i+1 < len(kv); i += 2 {
			h[kv[i]] = append(h[kv[i]], kv[i+1])
		}
		e.reqs = append(e.reqs, reqSpec{Method: m, H: h})
	}
	add("OPTIONS", hOrigin, "https://a.example", hACRM, "QUERY")                  // 0: fails under A (debug-sensitive), succeeds under B? (origin not allowed by B: fails at origin)
	add("OPTIONS", hOrigin, "https://a.example", hACRM, "PUT", hACRH, "x-a")      // 1: succeeds under A
	add("GET", hOrigin, "https://a.example")                                      // 2: actual request allowed by A only
	add("OPTIONS", hOrigin, "https://b.example", hACRM, "PUT", hACRH, "x-nope")   // 3: fails under B at the header step (debug-sensitive)
	add("GET", hOrigin, "https://x.b.example:8443")                               // 4: actual request allowed by B only
	add("OPTIONS")                                                                // 5: non-CORS OPTIONS
	return e
}

func (e *c07env) cfg(id string) *cors.Config {
	switch id {
	case "A":
		c := e.cfgA
		return &c
	case "B":
		c := e.cfgB
		return &c
	case "invalid":
		c := e.cfgBad
		return &c
	}
	return nil
}

func (e *c07env) fresh(icfg string, debug bool) *cors.Middleware {
	m := new(cors.Middleware)
	if icfg != "nil" {
		if err := m.Reconfigure(e.cfg(icfg)); err != nil {
			fatal("fresh(%s): %v", icfg, err)
		}
		m.SetDebug(debug)
	}
	return m
}

func respFP(w *rec, invoked int) string {
	h := sha256.New()
	fmt.Fprintf(h, "%d|%d|", w.status, invoked)
	fin := w.final()
	for _, k := range sortedKeys(fin) {
		fmt.Fprintf(h, "%s=%q;", k, fin[k])
	}
	return hex.EncodeToString(h.Sum(nil))[:16]
}

var c07states = []struct {
	icfg  string
	debug bool
}{{"nil", false}, {"A", false}, {"A", true}, {"B", false}, {"B", true}}

// emitRefs records, from fresh sequential middlewares, the response of every state to every
// request kind, and the Config() rendering of every configuration.
func (e *c07env) emitRefs(t *tracer) {
	for _, st := range c07states {
		m := e.fresh(st.icfg, st.debug)
		for k, rs := range e.reqs {
			sv := serve(m, newReq(rs.Method, cloneHeader(rs.H)), nil)
			t.emit(map[string]any{"ev": "Ref", "icfg": st.icfg, "debug": st.debug, "req": k, "fp": respFP(sv.w, sv.invoked)})
		}
		if !st.debug {
			fp, _ := configFingerprint(m.Config())
			t.emit(map[string]any{"ev": "CfgRef", "icfg": st.icfg, "fp": fp})
		}
	}
}

// ---------------------------------------------------------------- one controlled run

type scenario struct {
	InitCfg   string
	InitDebug bool
	Reqs      []int // request kinds, one thread each
	Ops       []wop // one writer thread each
	// sequential epilogue, after every thread has finished: these calls, then Config() and one request of every kind
	Post      []wop
	PostProbe bool
}

type runResult struct {
	choices [][]int // at each step: indices of the threads that were enabled
	picked  []int
	blocked bool
}

// runSchedule executes the scenario following `prefix` (thread indices) and then picking with
// `pick` (nil: always the first enabled thread); it emits the trace events of this execution.
func (e *c07env) runSchedule(t *tracer, sc scenario, prefix []int, schedID int, mutexGates bool, picker func(enabled []int) int) runResult {
	m := e.fresh(sc.InitCfg, sc.InitDebug)
	ctl := &controller{yield: make(chan ctlEvent)}
	if mutexGates {
		installMutexGate(ctl.gate)
		defer installMutexGate(nil)
	}
	var threads []*lthread
	type tinfo struct {
		kind   string
		req    int
		op     wop
		result string
		err    bool
	}
	infos := map[string]*tinfo{}
	for i, rk := range sc.Reqs {
		id := fmt.Sprintf("r%d", i)
		ti := &tinfo{kind: "request", req: rk}
		infos[id] = ti
		rs := e.reqs[rk]
		// every other request goes through a handler that was wrapped BEFORE the schedule starts - the way servers are set up:
		// Wrap once, serve for ever - i.e. while the middleware was still in the scenario's initial state; the others wrap inside
		// the request's own window. Whatever Wrap decides once and for all shows in the first kind.
		w := newRec()
		invoked := 0
		wrap := func() http.Handler {
			return m.Wrap(http.HandlerFunc(func(w2 http.ResponseWriter, _ *http.Request) {
				ctl.gate("Handler")
				invoked++
				commitAndEdit(w2, w.h, 200) // (the recorder's own map: no scheduler gate)
			}))
		}
		var early http.Handler
		if (schedID+i)%2 == 0 {
			early = wrap()
		}
		threads = append(threads, &lthread{id: id, resume: make(chan struct{}), fn: func() {
			h := early
			if h == nil {
				h = wrap()
			}
			h.ServeHTTP(&gatedRW{rec: w, c: ctl}, newReq(rs.Method, cloneHeader(rs.H)))
			ti.result = respFP(w, invoked)
		}})
	}
	for i, op := range sc.Ops {
		id := fmt.Sprintf("w%d", i)
		ti := &tinfo{kind: op.Kind, op: op}
		infos[id] = ti
		op := op
		threads = append(threads, &lthread{id: id, resume: make(chan struct{}), fn: func() {
			switch op.Kind {
			case "reconf":
				ti.err = m.Reconfigure(e.cfg(op.Cfg)) != nil
			case "setdebug":
				m.SetDebug(op.B)
			case "config":
				ti.result, _ = configFingerprint(m.Config())
			}
		}})
	}
	t.emit(map[string]any{"ev": "Sched", "id": schedID, "icfg": sc.InitCfg, "debug": sc.InitDebug})
	var res runResult
	committed := map[string]bool{}
	step := 0
	for {
		var enabled []int
		for i, th := range threads {
			if !th.done {
				enabled = append(enabled, i)
			}
		}
		if len(enabled) == 0 {
			break
		}
		pick := enabled[0]
		if step < len(prefix) && slices.Contains(enabled, prefix[step]) {
			// (a prefix recorded in an earlier execution may name a thread that has already finished in this one: state that outlives
			// an execution - a package-level cache, say - makes the code take fewer steps the second time; any enabled thread will do)
			pick = prefix[step]
		} else if step < len(prefix) {
			pick = enabled[0]
		} else if picker != nil {
			pick = picker(enabled)
		}
		res.choices = append(res.choices, enabled)
		res.picked = append(res.picked, pick)
		th := threads[pick]
		ti := infos[th.id]
		if !th.started {
			t.emit(map[string]any{"ev": "Begin", "t": th.id, "kind": ti.kind, "req": ti.req, "op": ti.op.String()})
		}
		kind, ok := ctl.step(th)
		if !ok {
			res.blocked = true
			all := map[string]string{}
			for _, x := range threads {
				all[x.id] = fmt.Sprintf("held=%d gates=%s", x.held, strings.Join(x.gates, ","))
			}
			t.emit(map[string]any{"ev": "Blocked", "t": th.id, "threads": all})
			return res
		}
		if (kind == "Unlock:post" || kind == "AtomicW:post") && ti.kind != "request" {
			// a write section of this writer has just completed
			t.emit(map[string]any{"ev": "Commit", "t": th.id, "op": ti.op.String()})
			committed[th.id] = true
		}
		if kind == "done" && th.panicked != "" {
			t.emit(map[string]any{"ev": "Panic", "t": th.id, "kind": ti.kind, "req": ti.req, "op": ti.op.String(), "what": th.panicked})
			// the thread may have died holding a lock: this execution ends here
			res.blocked = true
			return res
		}
		if kind == "done" {
			// a writer call during which NO write (write section or atomic store) was seen changed nothing: that is right exactly
			// when the call is a no-op in some state that was current while it ran (TraceMiddleware decides)
			nowrite := (ti.kind == "reconf" || ti.kind == "setdebug") && !committed[th.id] && !ti.err && mutexGates
			if (ti.kind == "reconf" || ti.kind == "setdebug") && !committed[th.id] && !ti.err && !mutexGates {
				t.emit(map[string]any{"ev": "Commit", "t": th.id, "op": ti.op.String()}) // uninstrumented build: the call is the commit point
			}
			t.emit(map[string]any{"ev": "End", "t": th.id, "kind": ti.kind, "req": ti.req, "op": ti.op.String(), "fp": ti.result, "err": ti.err,
				"gates": strings.Join(th.gates, ","), "nowrite": nowrite, "gl": append([]string{}, th.gates...), "lockchk": mutexGates})
		}
		step++
	}
	if len(sc.Post) > 0 || sc.PostProbe {
		// the epilogue runs without the scheduler: no other thread is alive
		if mutexGates {
			installMutexGate(nil)
		}
		emitOp := func(id string, op wop) {
			t.emit(map[string]any{"ev": "Begin", "t": id, "kind": op.Kind, "req": 0, "op": op.String()})
			var errd bool
			var fp string
			switch op.Kind {
			case "reconf":
				errd = m.Reconfigure(e.cfg(op.Cfg)) != nil
			case "setdebug":
				m.SetDebug(op.B)
			case "config":
				fp, _ = configFingerprint(m.Config())
			}
			if op.Kind != "config" && !errd {
				t.emit(map[string]any{"ev": "Commit", "t": id, "op": op.String()})
			}
			t.emit(map[string]any{"ev": "End", "t": id, "kind": op.Kind, "req": 0, "op": op.String(), "fp": fp, "err": errd, "gates": "", "nowrite": false, "gl": []string{}, "lockchk": false})
		}
		for i, op := range sc.Post {
			emitOp(fmt.Sprintf("p%d", i), op)
		}
		if sc.PostProbe {
			emitOp("pc", wop{Kind: "config"})
			// twice: the second pass (and the second Config()) shows what the requests of the first one - whose handlers go on editing
			// the header values they were given after committing the response - have left behind
			for pass, pfx := range []string{"q", "s"} {
				if pass == 1 {
					emitOp("pd", wop{Kind: "config"})
				}
				for k, rs := range e.reqs {
					id := fmt.Sprintf("%s%d", pfx, k)
					t.emit(map[string]any{"ev": "Begin", "t": id, "kind": "request", "req": k, "op": "config"})
					sv := serve(m, newReq(rs.Method, cloneHeader(rs.H)), nil)
					t.emit(map[string]any{"ev": "End", "t": id, "kind": "request", "req": k, "op": "config", "fp": respFP(sv.w, sv.invoked), "err": false, "gates": "", "nowrite": false, "gl": []string{}, "lockchk": false})
				}
			}
		}
	}
	return res
}

// explore enumerates every interleaving of the scenario's gate-to-gate segments (stateless DFS
// with replay) up to `limit` schedules.
func (e *c07env) explore(t *tracer, sc scenario, limit int, mutexGates bool, schedID *int, rng interface{ Intn(int) int }) (n int, blocked int, exhaustive bool) {
	prefix := []int{}
	for {
		*schedID++
		res := e.runSchedule(t, sc, prefix, *schedID, mutexGates, nil)
		n++
		if res.blocked {
			blocked++
			return
		}
		if n >= limit {
			// too many interleavings for this budget: add as many uniformly random schedules
			for k := 0; k < limit; k++ {
				*schedID++
				r := e.runSchedule(t, sc, nil, *schedID, mutexGates, func(en []int) int { return en[rng.Intn(len(en))] })
				n++
				if r.blocked {
					blocked++
					return
				}
			}
			return
		}
		// backtrack: last position with an untried alternative
		i := len(res.picked) - 1
		for ; i >= 0; i-- {
			en := res.choices[i]
			idx := -1
			for k, x := range en {
				if x == res.picked[i] {
					idx = k
				}
			}
			if idx+1 < len(en) {
				prefix = append(append([]int{}, res.picked[:i]...), en[idx+1])
				break
			}
		}
		if i < 0 {
			exhaustive = true
			return
		}
	}
}

func cmdC07(args []string) {
	fs := flag.NewFlagSet("c07", flag.ExitOnError)
	trace := fs.String("trace", "", "NDJSON trace to write")
	limit := fs.Int("limit", 400, "schedules per scenario")
	nscen := fs.Int("scenarios", 30, "number of scenarios")
	out := fs.String("out", "", "summary JSON")
	fs.Parse(args)
	rng := newRand()
	t := newTracer(*trace)
	defer t.close()
	e := newC07env()
	e.emitRefs(t)
	mutexGates := installMutexGate(nil)
	ops := []wop{{"reconf", "A", false}, {"reconf", "B", false}, {"reconf", "nil", false}, {"reconf", "invalid", false},
		{"setdebug", "", true}, {"setdebug", "", false}, {"config", "", false}}
	// scenarios: the ones the quantifier names first, then seeded ones
	scens := []scenario{
		{"A", true, []int{0}, []wop{{"reconf", "nil", false}}, nil, false},
		{"A", false, []int{0}, []wop{{"reconf", "B", false}, {"setdebug", "", true}}, nil, false},
		{"A", true, []int{0}, []wop{{"reconf", "B", false}}, nil, false},
		{"B", true, []int{3}, []wop{{"reconf", "A", false}, {"setdebug", "", false}}, nil, false},
		{"nil", false, []int{1}, []wop{{"reconf", "A", false}, {"setdebug", "", true}}, nil, false},
		{"A", false, []int{2}, []wop{{"reconf", "nil", false}, {"reconf", "B", false}}, nil, false},
		{"B", false, []int{4}, []wop{{"config", "", false}, {"reconf", "A", false}}, nil, false},
		{"A", true, []int{0, 3}, []wop{{"reconf", "B", false}}, nil, false},
		{"A", true, []int{5}, []wop{{"reconf", "nil", false}, {"reconf", "invalid", false}}, nil, false},
		{"A", false, []int{1}, []wop{{"setdebug", "", true}, {"config", "", false}}, nil, false},
	}
	for len(scens) < *nscen {
		st := c07states[rng.Intn(len(c07states))]
		sc := scenario{InitCfg: st.icfg, InitDebug: st.debug, Reqs: []int{rng.Intn(len(e.reqs))}}
		for k := 1 + rng.Intn(2); k > 0; k-- {
			sc.Ops = append(sc.Ops, ops[rng.Intn(len(ops))])
		}
		if rng.Intn(4) == 0 {
			sc.Reqs = append(sc.Reqs, rng.Intn(len(e.reqs)))
		}
		scens = append(scens, sc)
	}
	scens = scens[:*nscen]
	schedID, total, blocked, exhaustive := 0, 0, 0, 0
	var samples []any
	for _, sc := range scens {
		n, b, ex := e.explore(t, sc, *limit, mutexGates, &schedID, rng)
		total += n
		blocked += b
		if ex {
			exhaustive++
		}
		if len(samples) < 3 {
			samples = append(samples, map[string]any{"init": sc.InitCfg, "debug": sc.InitDebug, "requests": sc.Reqs, "writers": fmt.Sprint(sc.Ops), "schedules": n})
		}
	}
	writeJSON(*out, map[string]any{"schedules": total, "scenarios": len(scens), "exhaustive_scenarios": exhaustive, "blocked": blocked,
		"mutex_gates": mutexGates, "events": t.n, "samples": samples})
}

// ---------------------------------------------------------------- G: TLC-generated method-against-method scenarios

// c07conc replays the scenarios written by ConcMC.tla: concurrent calls of the middleware's own methods (no request in
// flight) under every schedule of their gate-to-gate segments, then a sequential epilogue and probes of the final state.
func cmdC07Conc(args []string) {
	fs := flag.NewFlagSet("c07conc", flag.ExitOnError)
	cases := fs.String("cases", "", "scenarios written by TLC (ConcMC.tla)")
	trace := fs.String("trace", "", "NDJSON trace to write")
	limit := fs.Int("limit", 400, "schedules per scenario")
	stride := fs.Int("stride", 1, "replay every stride-th scenario (offset by seed)")
	need := fs.String("need", "", "only scenarios with a concurrent call whose name contains this (e.g. invalid, setdebug)")
	out := fs.String("out", "", "summary JSON")
	fs.Parse(args)
	rng := newRand()
	t := newTracer(*trace)
	defer t.close()
	e := newC07env()
	e.emitRefs(t)
	mutexGates := installMutexGate(nil)
	type jop struct {
		K string `json:"k"`
		C string `json:"c"`
		B bool   `json:"b"`
	}
	toWop := func(o jop) wop { return wop{Kind: o.K, Cfg: o.C, B: o.B} }
	seen := map[string]bool{}
	idx, off := 0, int(seedFromEnv())%*stride
	schedID, total, blocked, exhaustive, scen := 0, 0, 0, 0, 0
	var samples []any
	readCases(*cases, func(line []byte) {
		var c struct {
			Init struct {
				Icfg  string `json:"icfg"`
				Debug bool   `json:"debug"`
			} `json:"init"`
			Par []jop `json:"par"`
			Epi []jop `json:"epi"`
		}
		if err := json.Unmarshal(line, &c); err != nil {
			fatal("bad scenario: %v", err)
		}
		sc := scenario{InitCfg: c.Init.Icfg, InitDebug: c.Init.Debug, PostProbe: true}
		for _, o := range c.Par {
			sc.Ops = append(sc.Ops, toWop(o))
		}
		for _, o := range c.Epi {
			sc.Post = append(sc.Post, toWop(o))
		}
		// the concurrent calls form a multiset: (o1, o2) and (o2, o1) are the same scenario
		names := []string{}
		for _, o := range sc.Ops {
			names = append(names, o.String())
		}
		sort.Strings(names)
		if *need != "" && !strings.Contains(strings.Join(names, " "), *need) {
			return
		}
		key := fmt.Sprint(sc.InitCfg, sc.InitDebug, names, sc.Post)
		if seen[key] {
			return
		}
		seen[key] = true
		idx++
		if (idx+off)%*stride != 0 {
			return
		}
		n, b, ex := e.explore(t, sc, *limit, mutexGates, &schedID, rng)
		scen++
		total += n
		blocked += b
		if ex {
			exhaustive++
		}
		if len(samples) < 3 && scen%50 == 7 {
			samples = append(samples, map[string]any{"init": sc.InitCfg, "debug": sc.InitDebug, "concurrent": fmt.Sprint(sc.Ops), "epilogue": fmt.Sprint(sc.Post), "schedules": n})
		}
	})
	writeJSON(*out, map[string]any{"schedules": total, "scenarios": scen, "exhaustive_scenarios": exhaustive, "blocked": blocked,
		"mutex_gates": mutexGates, "events": t.n, "samples": samples})
}

// ---------------------------------------------------------------- free-running stress (built with -race)

func cmdC07Stress(args []string) {
	fs := flag.NewFlagSet("c07stress", flag.ExitOnError)
	dur := fs.Duration("dur", 3*time.Second, "duration")
	out := fs.String("out", "", "summary JSON")
	fs.Parse(args)
	e := newC07env()
	// every response must be the response of ONE of the five states to that request
	allowed := make([]map[string]bool, len(e.reqs))
	for k, rs := range e.reqs {
		allowed[k] = map[string]bool{}
		for _, st := range c07states {
			sv := serve(e.fresh(st.icfg, st.debug), newReq(rs.Method, cloneHeader(rs.H)), nil)
			allowed[k][respFP(sv.w, sv.invoked)] = true
		}
	}
	cfgAllowed := map[string]bool{}
	for _, id := range []string{"nil", "A", "B"} {
		fp, _ := configFingerprint(e.fresh(id, false).Config())
		cfgAllowed[fp] = true
	}
	m := e.fresh("A", false)
	var stop atomic.Bool
	var served, mixed, writes atomic.Int64
	var mu sync.Mutex
	var firstMixed string
	var wg sync.WaitGroup
	for g := 0; g < 8; g++ {
		wg.Add(1)
		go func(g int) {
			defer wg.Done()
			h := m.Wrap(okHandler)
			for i := 0; !stop.Load(); i++ {
				k := (i + g) % len(e.reqs)
				rs := e.reqs[k]
				w := newRec()
				inv := 0
				m.Wrap(http.HandlerFunc(func(w2 http.ResponseWriter, _ *http.Request) { inv++; w2.WriteHeader(200) })).
					ServeHTTP(w, newReq(rs.Method, cloneHeader(rs.H)))
				_ = h
				served.Add(1)
				if fp := respFP(w, inv); !allowed[k][fp] {
					mixed.Add(1)
					mu.Lock()
					if firstMixed == "" {
						firstMixed = fmt.Sprintf("request kind %d: status %d headers %v", k, w.status, w.final())
					}
					mu.Unlock()
				}
			}
		}(g)
	}
	for g := 0; g < 4; g++ {
		wg.Add(1)
		go func(g int) {
			defer wg.Done()
			ids := []string{"A", "B", "nil", "invalid"}
			for i := 0; !stop.Load(); i++ {
				switch (i + g) % 4 {
				case 0:
					m.Reconfigure(e.cfg(ids[(i/4+g)%4]))
				case 1:
					m.SetDebug(i%8 < 4)
				case 2:
					if fp, _ := configFingerprint(m.Config()); !cfgAllowed[fp] {
						mixed.Add(1)
						mu.Lock()
						if firstMixed == "" {
							firstMixed = "Config() rendered a value that is the normal form of no state"
						}
						mu.Unlock()
					}
				case 3:
					m.Reconfigure(e.cfg(ids[(i/4)%3]))
				}
				writes.Add(1)
			}
		}(g)
	}
	time.Sleep(*dur)
	stop.Store(true)
	wg.Wait()
	writeJSON(*out, map[string]any{"served": served.Load(), "writer_calls": writes.Load(), "mixed": mixed.Load(), "first_mixed": firstMixed})
	if mixed.Load() > 0 {
		os.Exit(3)
	}
}
