package main

import (
	"encoding/json"
	"flag"
	"fmt"
	"math/rand"
	"net/http"
	"os"
	"path/filepath"
	"strconv"
	"strings"
	"sync"
	"sync/atomic"

	"github.com/jub0bs/cors"
)

// ---------------------------------------------------------------- abstract data (from TLC)

type absPattern struct {
	Scheme string `json:"scheme"`
	Wild   bool   `json:"wild"`
	Host   []int  `json:"host"`
	Port   int    `json:"port"`
}

type absOrigin struct {
	Scheme string `json:"scheme"`
	Host   []int  `json:"host"`
	Port   int    `json:"port"`
}

const anyPort = 65536

// serializePattern renders a pattern from its components (the driver never parses).
func serializePattern(scheme string, wild bool, host string, port int) string {
	var b strings.Builder
	b.WriteString(scheme)
	b.WriteString("://")
	if wild {
		b.WriteString("*.")
	}
	b.WriteString(host)
	switch port {
	case 0:
	case anyPort:
		b.WriteString(":*")
	default:
		b.WriteByte(':')
		b.WriteString(strconv.Itoa(port))
	}
	return b.String()
}

func serializeOrigin(scheme, host string, port int) string {
	if port == 0 {
		return scheme + "://" + host
	}
	return scheme + "://" + host + ":" + strconv.Itoa(port)
}

// originAllowedByMiddleware reports what the real middleware does with `Origin: o`:
// actual = the response to a GET carries ACAO == o; preflight = the response to a
// preflight (OPTIONS + ACRM: GET) carries ACAO == o.
func originAllowedByMiddleware(h http.Handler, o string) (actual, preflight bool) {
	w := newRec()
	h.ServeHTTP(w, newReq("GET", http.Header{"Origin": {o}}))
	v := w.final()["Access-Control-Allow-Origin"]
	actual = len(v) == 1 && v[0] == o
	w2 := newRec()
	h.ServeHTTP(w2, newReq("OPTIONS", http.Header{"Origin": {o}, "Access-Control-Request-Method": {"GET"}}))
	v2 := w2.final()["Access-Control-Allow-Origin"]
	preflight = len(v2) == 1 && v2[0] == o
	return
}

// ---------------------------------------------------------------- binding G: replay of RadixMC

type c01Case struct {
	P []int `json:"p"` // pattern indices (1-based), in insertion order
	V []int `json:"v"` // indices (1-based) of the probes that Origins!Allowed admits
	N int   `json:"n"` // |TreeElems| in the model (drift report only)
}

type c01Mismatch struct {
	Case     c01Case  `json:"case"`
	Patterns []string `json:"patterns"`
	Origin   string   `json:"origin"`
	Expected bool     `json:"expected_allowed"`
	Actual   bool     `json:"got_actual"`
	Prefl    bool     `json:"got_preflight"`
}

func cmdC01Gen(args []string) {
	fs := flag.NewFlagSet("c01gen", flag.ExitOnError)
	uniFile := fs.String("universe", "", "universe JSON written by TLC")
	caseFile := fs.String("cases", "", "cases written by TLC")
	out := fs.String("out", "", "summary JSON")
	replayDir := fs.String("replaydir", "", "directory for replay files")
	roundtrip := fs.Bool("roundtrip", false, "C06: also rebuild a middleware from Config() and compare every probe verdict (real vs real)")
	fs.Parse(args)

	var uni struct {
		Pats   []absPattern `json:"pats"`
		Probes []absOrigin  `json:"probes"`
	}
	readJSON(*uniFile, &uni)
	var cases []c01Case
	readCases(*caseFile, func(line []byte) {
		var c c01Case
		if err := json.Unmarshal(line, &c); err != nil {
			fatal("bad case %q: %v", line, err)
		}
		cases = append(cases, c)
	})
	seed := seedFromEnv()
	// mismatches are also appended to <out>.partial as they are found, so that they survive a later crash of the process
	partial, _ := os.Create(*out + ".partial")
	defer partial.Close()

	var (
		evals, nontrivial, rejected, elemsDrift, rtCases atomic.Int64
		mu                                               sync.Mutex
		mismatches                                       []c01Mismatch
		rtMismatches                                     []map[string]any
		samples                                          []any
	)
	letters := "abcdefghijklmnopqrstuvwxyz"
	schemePairs := [][3]string{{"https", "http", "httpss"}, {"http", "https", "htt"}, {"foo", "foobar", "fo"}, {"a-b.c+d", "https", "a-b.c"},
		{"http", "htt", "https"}, {"wss", "ws", "w"}, {"b", "a", "c"}, {"c", "b", "a"}}

	var wg sync.WaitGroup
	nw := 16
	for wk := 0; wk < nw; wk++ {
		wg.Add(1)
		go func(wk int) {
			defer wg.Done()
			for ci := wk; ci < len(cases); ci += nw {
				c := cases[ci]
				rng := rand.New(rand.NewSource(seed*1000003 + int64(ci)))
				// injective byte map: 97 -> x, 98 -> y (distinct lower-case letters), 46 -> '.'
				xa := letters[rng.Intn(26)]
				xb := letters[rng.Intn(26)]
				for xb == xa {
					xb = letters[rng.Intn(26)]
				}
				sp := schemePairs[rng.Intn(len(schemePairs))]
				p1 := 1 + rng.Intn(65535)
				for p1 == 80 || p1 == 443 {
					p1 = 1 + rng.Intn(65535)
				}
				p2 := 1 + rng.Intn(65535)
				for p2 == p1 || p2 == 80 || p2 == 443 {
					p2 = 1 + rng.Intn(65535)
				}
				p3 := 1 + rng.Intn(65535)
				for p3 == p1 || p3 == p2 {
					p3 = 1 + rng.Intn(65535)
				}
				mapHost := func(h []int) string {
					b := make([]byte, len(h))
					for i, x := range h {
						switch x {
						case 97:
							b[i] = xa
						case 98:
							b[i] = xb
						default:
							b[i] = byte(x)
						}
					}
					return string(b)
				}
				mapScheme := func(s string) string {
					switch s {
					case "s":
						return sp[0]
					case "t":
						return sp[1]
					}
					return sp[2]
				}
				mapPort := func(p int) int {
					switch p {
					case 1:
						return p1
					case 2:
						return p2
					case 3:
						return p3
					}
					return p
				}
				pats := make([]string, len(c.P))
				distinct := map[int]bool{}
				for i, pi := range c.P {
					ap := uni.Pats[pi-1]
					pats[i] = serializePattern(mapScheme(ap.Scheme), ap.Wild, mapHost(ap.Host), mapPort(ap.Port))
					distinct[pi] = true
				}
				if len(pats) == 0 {
					continue // the empty list is not an accepted configuration
				}
				m, err := cors.NewMiddleware(cors.Config{
					Origins: pats,
					ExtraConfig: cors.ExtraConfig{
						DangerouslyTolerateSubdomainsOfPublicSuffixes: true,
					},
				})
				if err != nil {
					rejected.Add(1)
					continue
				}
				if len(distinct) >= 2 {
					nontrivial.Add(1)
				}
				if got := len(dedup(m.Config().Origins)); got != c.N {
					elemsDrift.Add(1)
				}
				if len(pats)%3 == 0 {
					noise(m) // state-preserving operations (see life.go) on a third of the cases
				}
				h := m.Wrap(okHandler)
				var h2 http.Handler
				if *roundtrip {
					rtCases.Add(1)
					rendered := m.Config()
					m2, err2 := cors.NewMiddleware(*rendered)
					err3 := m.Reconfigure(m.Config())
					if err2 != nil || err3 != nil {
						mu.Lock()
						if len(rtMismatches) < 30 {
							rtMismatches = append(rtMismatches, map[string]any{"patterns": pats, "rendered": rendered.Origins,
								"why": fmt.Sprintf("NewMiddleware(*Config()) error: %v; Reconfigure(Config()) error: %v", err2, err3)})
						}
						mu.Unlock()
					} else {
						h2 = m2.Wrap(okHandler)
					}
				}
				want := make(map[int]bool, len(c.V))
				for _, v := range c.V {
					want[v] = true
				}
				for j, ao := range uni.Probes {
					o := serializeOrigin(mapScheme(ao.Scheme), mapHost(ao.Host), mapPort(ao.Port))
					act, pf := originAllowedByMiddleware(h, o)
					evals.Add(1)
					exp := want[j+1]
					if h2 != nil {
						// after Reconfigure(Config()) the original must answer as before (= exp), and the rebuilt one alike
						act2, pf2 := originAllowedByMiddleware(h2, o)
						if act2 != act || pf2 != pf {
							mu.Lock()
							if len(rtMismatches) < 30 {
								rtMismatches = append(rtMismatches, map[string]any{"patterns": pats, "origin": o,
									"why": fmt.Sprintf("middleware rebuilt from Config(): allowed=%v/%v, original (after Reconfigure(Config())): %v/%v", act2, pf2, act, pf)})
							}
							mu.Unlock()
						}
					}
					if act != exp || pf != exp {
						mu.Lock()
						if len(mismatches) < 50 {
							mm := c01Mismatch{c, pats, o, exp, act, pf}
							mismatches = append(mismatches, mm)
							if b, err := json.Marshal(mm); err == nil && partial != nil {
								partial.Write(append(b, '\n'))
								partial.Sync()
							}
						}
						mu.Unlock()
					}
				}
				if ci%50021 == 7 {
					mu.Lock()
					if len(samples) < 5 {
						samples = append(samples, map[string]any{"patterns": pats, "allowed_probe_indices": c.V})
					}
					mu.Unlock()
				}
			}
		}(wk)
	}
	wg.Wait()
	for i, mm := range mismatches {
		if *replayDir != "" {
			os.MkdirAll(*replayDir, 0o755)
			writeJSON(filepath.Join(*replayDir, fmt.Sprintf("C01-gen-%d.json", i)), mm)
		}
	}
	writeJSON(*out, map[string]any{
		"cases":        len(cases),
		"evaluations":  evals.Load(),
		"nontrivial":   nontrivial.Load(),
		"rejected":     rejected.Load(),
		"elems_drift":  elemsDrift.Load(),
		"mismatches":   mismatches,
		"n_mismatches": len(mismatches),
		"rt_cases":     rtCases.Load(),
		"rt_mismatches": rtMismatches,
		"samples":      samples,
	})
}

func dedup(s []string) []string {
	seen := map[string]bool{}
	var out []string
	for _, x := range s {
		if !seen[x] {
			seen[x] = true
			out = append(out, x)
		}
	}
	return out
}

// ---------------------------------------------------------------- binding T: realistic random driver

type cPattern struct {
	Scheme string
	Wild   bool
	Host   string // serialized host (IPv6 with brackets); base domain when Wild
	Port   int
}

func (p cPattern) String() string { return serializePattern(p.Scheme, p.Wild, p.Host, p.Port) }

type cOrigin struct {
	Scheme string
	Host   string
	Port   int
}

func (o cOrigin) String() string { return serializeOrigin(o.Scheme, o.Host, o.Port) }

const ldh = "abcdefghijklmnopqrstuvwxyz0123456789"

func randLabel(rng *rand.Rand, n int) string {
	b := make([]byte, n)
	for i := range b {
		if i == 0 {
			b[i] = ldh[rng.Intn(26)] // start with a letter: never mistaken for an IPv4 octet
		} else if i > 0 && i < n-1 && i != 2 && i != 3 && rng.Intn(12) == 0 {
			b[i] = '-' // inner hyphen, never in positions 3-4 (grey zone)
		} else {
			b[i] = ldh[rng.Intn(len(ldh))]
		}
	}
	return string(b)
}

var tlds = []string{"com", "org", "net", "io", "example", "test", "dev", "co.uk", "internal", "kin", "pin", "in", "n"}

// randDomain returns a plausible domain; with small probability a maximal (253-byte) one.
func randDomain(rng *rand.Rand) string {
	switch rng.Intn(20) {
	case 0: // 253 bytes: 3 x 63 + 61 + 3 dots
		return randLabel(rng, 63) + "." + randLabel(rng, 63) + "." + randLabel(rng, 63) + "." + randLabel(rng, 61)
	case 1:
		return "localhost"
	case 2: // single label
		return randLabel(rng, 1+rng.Intn(8))
	}
	n := 1 + rng.Intn(3)
	parts := make([]string, 0, n+1)
	for i := 0; i < n; i++ {
		parts = append(parts, randLabel(rng, 1+rng.Intn(10)))
	}
	parts = append(parts, tlds[rng.Intn(len(tlds))])
	return strings.Join(parts, ".")
}

var ipv4s = []string{"127.0.0.1", "10.0.0.1", "192.168.1.20", "255.255.255.255", "1.1.1.1", "169.254.169.254"}
var ipv6s = []string{"[::1]", "[2001:db8::1]", "[2001:db8:aaaa:1111::100]", "[fe80::1]", "[::]", "[1:2:3:4:5:6:7:8]"}
var rschemes = []string{"https", "http", "http", "https", "https", "htt", "httpss", "ttps", "chrome-extension", "foo+bar.baz-1", "wss"}

func randPort(rng *rand.Rand, scheme string) int {
	for {
		var p int
		switch rng.Intn(6) {
		case 0:
			p = 65535
		case 1:
			p = 1
		case 2:
			p = 8080
		case 3:
			p = 80
		case 4:
			p = 443
		default:
			p = 1 + rng.Intn(65535)
		}
		if (scheme == "http" && p == 80) || (scheme == "https" && p == 443) {
			continue
		}
		return p
	}
}

// family generates patterns around one base domain so that hosts share byte suffixes that are
// NOT label boundaries (kin / pin / nap.kin), subdomains, wildcards, several schemes and ports.
func family(rng *rand.Rand, out []cPattern) []cPattern {
	base := randDomain(rng)
	hosts := []string{base}
	if len(base) < 240 {
		hosts = append(hosts, randLabel(rng, 1)+base)                   // left-extended without dot
		hosts = append(hosts, randLabel(rng, 1+rng.Intn(5))+"."+base)   // subdomain
		hosts = append(hosts, randLabel(rng, 2)+"."+randLabel(rng, 3)+"."+base)
	}
	if len(base) > 3 && base[1] != '.' && base[1] != '-' && base[1] >= 'a' {
		hosts = append(hosts, base[1:]) // truncated on the left
	}
	if i := strings.IndexByte(base, '.'); i > 0 && i+1 < len(base) && base[i+1] >= 'a' {
		hosts = append(hosts, base[i+1:]) // parent domain
	}
	n := 1 + rng.Intn(6)
	for i := 0; i < n; i++ {
		h := hosts[rng.Intn(len(hosts))]
		sc := rschemes[rng.Intn(len(rschemes))]
		p := cPattern{Scheme: sc, Host: h}
		if rng.Intn(3) == 0 && len(h) <= 251 {
			p.Wild = true
		}
		if !p.Wild && rng.Intn(6) == 0 && len(h) <= 253 {
			p.Host = h + "." // trailing-dot host (absolute domain name)
		} else if p.Wild && rng.Intn(8) == 0 && len(h) < 251 {
			p.Host = h + "."
		}
		switch rng.Intn(4) {
		case 0:
			p.Port = anyPort
		case 1:
			p.Port = randPort(rng, sc)
		}
		out = append(out, p)
	}
	return out
}

// longScheme returns a scheme of exactly n bytes (a letter, then letters, digits, '+', '-', '.').
func longScheme(rng *rand.Rand, n int) string {
	const rest = "abcdefghijklmnopqrstuvwxyz0123456789+-."
	b := make([]byte, n)
	for i := range b {
		if i == 0 {
			b[i] = ldh[rng.Intn(26)]
		} else {
			b[i] = rest[rng.Intn(len(rest))]
		}
	}
	return string(b)
}

// padHost returns a subdomain of base whose length (a trailing full stop not counted) is exactly total, or "".
func padHost(rng *rand.Rand, base string, total int) string {
	need := total - len(strings.TrimSuffix(base, ".")) - 1
	if need < 1 {
		return ""
	}
	var parts []string
	for need > 0 {
		l := min(63, need)
		if need-l == 1 {
			l--
		}
		if l < 1 {
			return ""
		}
		parts = append(parts, randLabel(rng, l))
		need -= l
		if need > 0 {
			need--
		}
	}
	return strings.Join(parts, ".") + "." + base
}

// extremeFamily: patterns at the documented size limits, all at once - the longest scheme (64 bytes, and 63), the longest host
// (253 bytes, with and without the full stop of an absolute domain name), five-digit and arbitrary ports, exact and wildcard.
func extremeFamily(rng *rand.Rand, out []cPattern) []cPattern {
	sc := longScheme(rng, 64-rng.Intn(2))
	long := randLabel(rng, 63) + "." + randLabel(rng, 63) + "." + randLabel(rng, 63) + "." + randLabel(rng, 61)
	short := randLabel(rng, 1+rng.Intn(8)) + "." + tlds[rng.Intn(len(tlds))]
	out = append(out,
		cPattern{Scheme: sc, Host: long + ".", Port: 10000 + rng.Intn(55536)},
		cPattern{Scheme: sc, Host: long, Port: anyPort},
		cPattern{Scheme: longScheme(rng, 64), Host: long + ".", Port: anyPort},
		cPattern{Scheme: sc, Wild: true, Host: short + ".", Port: anyPort},
		cPattern{Scheme: longScheme(rng, 64), Wild: true, Host: short, Port: 65535},
		cPattern{Scheme: "https", Wild: true, Host: short + ".", Port: 10000 + rng.Intn(55536)},
	)
	return out
}

func ipPatterns(rng *rand.Rand, out []cPattern) []cPattern {
	n := 1 + rng.Intn(3)
	for i := 0; i < n; i++ {
		sc := rschemes[rng.Intn(len(rschemes))]
		if sc == "https" { // https + IP host is an undocumented grey zone: not generated
			sc = "http"
		}
		var h string
		if rng.Intn(2) == 0 {
			h = ipv4s[rng.Intn(len(ipv4s))]
		} else {
			h = ipv6s[rng.Intn(len(ipv6s))]
		}
		p := cPattern{Scheme: sc, Host: h}
		switch rng.Intn(4) {
		case 0:
			p.Port = anyPort
		case 1:
			p.Port = randPort(rng, sc)
		}
		out = append(out, p)
	}
	return out
}

func validHostForProbe(h string) bool {
	if h == "" || h[0] == '.' || strings.Contains(h, "..") || len(h) > 254 {
		return false
	}
	return true
}

// nearMisses lists the probe origins the C01 quantifier names for one pattern.
func nearMisses(rng *rand.Rand, p cPattern, out []cOrigin) []cOrigin {
	isIP := strings.HasPrefix(p.Host, "[") || (p.Host[0] >= '0' && p.Host[0] <= '9')
	var hosts []string
	if p.Wild {
		l1 := randLabel(rng, 1+rng.Intn(6))
		hosts = append(hosts,
			p.Host,                 // the base itself (shallower): not denoted
			l1+"."+p.Host,          // one label
			randLabel(rng, 2)+"."+l1+"."+p.Host, // deeper
			l1+p.Host,              // left-extended without dot
			"a."+l1+p.Host,         // subdomain of the dot-less extension
		)
		// labels that start or end with a hyphen in the part the wildcard covers (the request side is lenient about label syntax;
		// the pattern denotes every subdomain)
		hosts = append(hosts, "-"+l1+"."+p.Host, l1+"-."+p.Host, "a.-"+l1+"-."+p.Host)
		if h := padHost(rng, p.Host, 253); h != "" { // the longest host the pattern denotes
			hosts = append(hosts, h)
		}
		if len(p.Host) > 2 {
			hosts = append(hosts, l1+"."+p.Host[1:]) // base truncated on the left
			hosts = append(hosts, l1+"."+p.Host[:len(p.Host)-1])
		}
	} else {
		hosts = append(hosts, p.Host)
		if !isIP {
			hosts = append(hosts,
				randLabel(rng, 1)+p.Host,     // extended on the left without a dot
				randLabel(rng, 3)+"."+p.Host, // deeper subdomain
				p.Host[1:],                   // truncated on the left
				p.Host[:len(p.Host)-1],       // truncated on the right
			)
			if i := strings.IndexByte(p.Host, '.'); i > 0 {
				hosts = append(hosts, p.Host[i+1:]) // shallower
			}
			if strings.HasSuffix(p.Host, ".") {
				hosts = append(hosts, strings.TrimSuffix(p.Host, "."))
			} else {
				hosts = append(hosts, p.Host+".")
			}
		}
	}
	schemes := []string{p.Scheme}
	if len(p.Scheme) > 1 {
		schemes = append(schemes, p.Scheme[:len(p.Scheme)-1], p.Scheme[1:]) // prefix / suffix of the scheme
	}
	schemes = append(schemes, p.Scheme+"s", rschemes[rng.Intn(len(rschemes))])
	ports := []int{0, 65535, 80, 443, 1 + rng.Intn(65535)}
	if p.Port != 0 && p.Port != anyPort {
		ports = append(ports, p.Port)
		if p.Port > 1 {
			ports = append(ports, p.Port-1)
		}
		if p.Port > 9 {
			ports = append(ports, p.Port/10) // a digit-prefix of the port
		}
	}
	for _, h := range hosts {
		if !validHostForProbe(h) {
			continue
		}
		for si, s := range schemes {
			if s == "" || !(s[0] >= 'a' && s[0] <= 'z') {
				continue
			}
			for pi, pt := range ports {
				// the full product is large; keep every host x (own scheme, all ports) and
				// every host x (all schemes, two ports), sample the rest
				if si != 0 && pi > 1 && rng.Intn(4) != 0 {
					continue
				}
				out = append(out, cOrigin{s, h, pt})
			}
		}
	}
	return out
}

func cmdC01Rand(args []string) {
	fs := flag.NewFlagSet("c01rand", flag.ExitOnError)
	trace := fs.String("trace", "", "NDJSON trace to write")
	n := fs.Int("probes", 20000, "approximate number of probes")
	out := fs.String("out", "", "summary JSON")
	fs.Parse(args)
	rng := newRand()
	t := newTracer(*trace)
	defer t.close()
	var probes, lists, rejected, nontrivial int
	var live *cors.Middleware
	var liveH http.Handler
	var prevAllowed []cOrigin
	var samples []any
	for iter := 0; probes < *n; iter++ {
		var pats []cPattern
		if iter%6 == 0 {
			pats = extremeFamily(rng, pats)
		}
		for k := 1 + rng.Intn(4); k > 0; k-- {
			if rng.Intn(5) == 0 {
				pats = ipPatterns(rng, pats)
			} else {
				pats = family(rng, pats)
			}
		}
		if len(pats) > 30 {
			pats = pats[:30]
		}
		// duplicates and random order
		if rng.Intn(3) == 0 {
			pats = append(pats, pats[rng.Intn(len(pats))])
		}
		rng.Shuffle(len(pats), func(i, j int) { pats[i], pats[j] = pats[j], pats[i] })
		strs := make([]string, len(pats))
		for i, p := range pats {
			strs[i] = p.String()
		}
		// every other list is installed with Reconfigure on ONE long-lived middleware whose handler was wrapped once, before
		// it was ever configured; the origins the previous list allowed are probed first (what was allowed before must not linger)
		cfg := cors.Config{Origins: strs, ExtraConfig: cors.ExtraConfig{DangerouslyTolerateSubdomainsOfPublicSuffixes: true}}
		var m *cors.Middleware
		var err error
		reuse := lists%2 == 1
		if reuse {
			if live == nil {
				live = new(cors.Middleware)
				liveH = live.Wrap(okHandler)
			}
			m, err = live, live.Reconfigure(&cfg)
		} else {
			m, err = cors.NewMiddleware(cfg)
		}
		if err != nil {
			rejected++
			t.emit(map[string]any{"ev": "Rejected", "patterns": strs, "err": err.Error()})
			continue
		}
		noise(m)
		lists++
		if len(pats) >= 2 {
			nontrivial++
		}
		t.emit(map[string]any{"ev": "Reset"})
		for _, p := range pats {
			t.emit(map[string]any{"ev": "Insert", "scheme": p.Scheme, "wild": p.Wild, "host": codes(p.Host), "port": p.Port})
		}
		h := m.Wrap(okHandler)
		if reuse {
			h = liveH
		}
		var os []cOrigin
		for _, p := range pats {
			os = nearMisses(rng, p, os)
		}
		// cap the probes per list so that many lists are explored
		if len(os) > 400 {
			rng.Shuffle(len(os), func(i, j int) { os[i], os[j] = os[j], os[i] })
			os = os[:400]
		}
		if reuse {
			os = append(append([]cOrigin{}, prevAllowed...), os...)
		}
		var nowAllowed []cOrigin
		for _, o := range os {
			s := o.String()
			act, pf := originAllowedByMiddleware(h, s)
			t.emit(map[string]any{"ev": "Probe", "scheme": o.Scheme, "host": codes(o.Host), "port": o.Port, "acao": act, "pf": pf, "raw": s})
			probes++
			if act {
				nowAllowed = append(nowAllowed, o)
			}
		}
		if reuse && len(pats) >= 1 {
			// the caller EDITS the list it passed before - one element overwritten in place, same slice, same length - and hands
			// the very same Config value to Reconfigure again: the middleware must follow the new content
			edited := cPattern{Scheme: "https", Host: fmt.Sprintf("edited-%d.example", lists)}
			old0 := pats[0]
			pats[0] = edited
			cfg.Origins[0] = edited.String()
			if err := live.Reconfigure(&cfg); err == nil {
				t.emit(map[string]any{"ev": "Reset"})
				for _, p := range pats {
					t.emit(map[string]any{"ev": "Insert", "scheme": p.Scheme, "wild": p.Wild, "host": codes(p.Host), "port": p.Port})
				}
				var es []cOrigin
				es = nearMisses(rng, edited, es)
				es = nearMisses(rng, old0, es)
				if len(es) > 60 {
					es = es[:60]
				}
				nowAllowed = nowAllowed[:0]
				for _, o := range es {
					s := o.String()
					act, pf := originAllowedByMiddleware(h, s)
					t.emit(map[string]any{"ev": "Probe", "scheme": o.Scheme, "host": codes(o.Host), "port": o.Port, "acao": act, "pf": pf, "raw": s})
					probes++
					if act {
						nowAllowed = append(nowAllowed, o)
					}
				}
			}
		}
		if reuse { // what the LONG-LIVED middleware allowed under this list, most recent first
			prevAllowed = prevAllowed[:0]
			for i := len(nowAllowed) - 1; i >= 0 && len(prevAllowed) < 25; i-- {
				prevAllowed = append(prevAllowed, nowAllowed[i])
			}
		}
		if len(samples) < 3 {
			samples = append(samples, map[string]any{"patterns": strs, "first_probes": firstN(os, 5)})
		}
	}
	writeJSON(*out, map[string]any{"probes": probes, "lists": lists, "rejected": rejected, "nontrivial": nontrivial, "events": t.n, "samples": samples})
}

func firstN(os []cOrigin, n int) []string {
	var out []string
	for i := 0; i < len(os) && i < n; i++ {
		out = append(out, os[i].String())
	}
	return out
}

// ---------------------------------------------------------------- binding G for C03: replay of ReqParseMC's byte strings

func cmdC03Gen(args []string) {
	fs := flag.NewFlagSet("c03gen", flag.ExitOnError)
	caseFile := fs.String("cases", "", "cases written by TLC (ReqParseMC.tla)")
	out := fs.String("out", "", "summary JSON")
	fs.Parse(args)
	type cs struct {
		B       []int `json:"b"`
		Lenient bool  `json:"lenient"`
		Member  bool  `json:"member"`
		Strict  bool  `json:"strict"`
		F4      bool  `json:"f4"`
	}
	var all []cs
	readCases(*caseFile, func(line []byte) {
		var c cs
		if err := json.Unmarshal(line, &c); err != nil {
			fatal("bad case: %v", err)
		}
		all = append(all, c)
	})
	// the configuration of ReqParseMC.tla, and an allow-all one that shows whether the scanner accepts the bytes
	pats := []string{"h://a", "h://a.a:1", "h://*.a:*", "h://[::1]:10", "h://1.1.1.1"}
	m, err := cors.NewMiddleware(cors.Config{Origins: pats, ExtraConfig: cors.ExtraConfig{DangerouslyTolerateSubdomainsOfPublicSuffixes: true}})
	if err != nil {
		fatal("c03gen config: %v", err)
	}
	anyMW, err := cors.NewMiddleware(cors.Config{Origins: []string{"*"}})
	if err != nil {
		fatal("c03gen config: %v", err)
	}
	noise(m)
	noise(anyMW)
	h, hany := m.Wrap(okHandler), anyMW.Wrap(okHandler)
	var evals, members, drift, f4 int
	var violations, drifts []map[string]any
	var panics []string
	var samples []any
	for i, c := range all {
		o := fromCodes(c.B)
		var act, pf, lenient, panicked bool
		func() {
			defer func() {
				if p := recover(); p != nil {
					panicked = true
					if len(panics) < 20 {
						panics = append(panics, fmt.Sprintf("Origin %q: %v", o, p))
					}
				}
			}()
			act, pf = originAllowedByMiddleware(h, o)
			w := newRec()
			hany.ServeHTTP(w, newReq("OPTIONS", http.Header{"Origin": {o}, "Access-Control-Request-Method": {"GET"}}))
			lenient = w.status >= 200 && w.status < 300
		}()
		if panicked {
			continue
		}
		evals++
		if act {
			members++
		}
		echoed := act || pf
		if echoed && !c.Strict {
			if c.F4 {
				f4++
			} else if len(violations) < 30 {
				violations = append(violations, map[string]any{"origin": o, "echoed_actual": act, "echoed_preflight": pf})
			}
		}
		if act != c.Member || pf != c.Member || lenient != c.Lenient {
			drift++
			if len(drifts) < 10 {
				drifts = append(drifts, map[string]any{"origin": o, "model_member": c.Member, "model_lenient": c.Lenient, "actual": act, "preflight": pf, "scanner_accepts": lenient})
			}
		}
		if c.Member && len(samples) < 5 && i%7 == 0 {
			samples = append(samples, map[string]any{"origin": o, "member": c.Member, "strict": c.Strict})
		}
	}
	writeJSON(*out, map[string]any{"cases": len(all), "evaluations": evals, "members": members, "f4_instances": f4, "drift": drift,
		"drifts": drifts, "violations": violations, "samples": samples, "panics": panics})
}
