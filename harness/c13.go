package main

import (
	"slices"
	"encoding/json"
	"flag"
	"fmt"
	"math/rand"
	"net/http"
	"strings"

	"github.com/jub0bs/cors"
	"github.com/jub0bs/cors/cfgerrors"
)

// patComp mirrors the component record of Pattern.tla.
type patComp struct {
	Scheme struct {
		Cls string `json:"cls"`
		Len int    `json:"len"`
	} `json:"scheme"`
	Sep  string `json:"sep"`
	Wild string `json:"wild"`
	Host struct {
		Kind     string `json:"kind"`
		Defect   string `json:"defect"`
		Len      int    `json:"len"`
		MaxLabel int    `json:"maxlabel"`
		TDot     bool   `json:"tdot"`
	} `json:"host"`
	Port struct {
		Kind     string `json:"kind"`
		Val      int    `json:"val"`
		Digits   int    `json:"digits"`
		LeadZero bool   `json:"leadzero"`
	} `json:"port"`
	Tail string `json:"tail"`
}

const lettersDigits = "abcdefghijklmnopqrstuvwxyz0123456789"

func label(rng *rand.Rand, n int) string {
	b := make([]byte, n)
	for i := range b {
		if i == 0 {
			b[i] = lettersDigits[rng.Intn(26)]
		} else {
			b[i] = lettersDigits[rng.Intn(len(lettersDigits))]
		}
	}
	return string(b)
}

// domainOf builds a domain of exactly n bytes whose longest label is exactly maxLabel bytes
// (63 unless the defect "label too long" is wanted, or n itself when n < 63).
func domainOf(rng *rand.Rand, n, maxLabel int) string {
	if n <= 63 || (maxLabel == 64 && n == 64) {
		return label(rng, n)
	}
	var labels []string
	rem := n
	if maxLabel == 64 {
		labels = append(labels, label(rng, 64))
		rem -= 65
	}
	for rem > 63 {
		take := 63
		if rem-64 == 0 { // would leave nothing for the last label
			take = 62
		}
		labels = append(labels, label(rng, take))
		rem -= take + 1
	}
	if rem > 0 {
		labels = append(labels, label(rng, rem))
	}
	return strings.Join(labels, ".")
}

func (c patComp) build(rng *rand.Rand) string {
	var scheme string
	switch c.Scheme.Cls {
	case "http", "https", "file":
		scheme = c.Scheme.Cls
	case "empty":
		scheme = ""
	case "badfirst":
		scheme = "1http"
	case "badlater":
		scheme = "ht~tp"
	default: // custom of exactly Len bytes
		const later = "abcdefghijklmnopqrstuvwxyz0123456789+-."
		// custom schemes that merely START like a special one (filesystem, https2, nullx, ...) are ordinary custom schemes
		pre := []string{"", "", "file", "http", "https", "null", "fil", "ws"}[rng.Intn(8)]
		if len(pre) >= c.Scheme.Len {
			pre = ""
		}
		for {
			b := make([]byte, c.Scheme.Len)
			copy(b, pre)
			for i := len(pre); i < len(b); i++ {
				if i == 0 {
					b[i] = later[rng.Intn(26)]
				} else {
					b[i] = later[rng.Intn(len(later))]
				}
			}
			scheme = string(b)
			if scheme != "http" && scheme != "https" && scheme != "file" {
				break
			}
		}
	}
	sep := map[string]string{"ok": "://", "colon": ":", "single": ":/", "none": ""}[c.Sep]
	var host string
	switch c.Host.Kind {
	case "domain":
		host = domainOf(rng, c.Host.Len, c.Host.MaxLabel)
	case "puny":
		host = "www.xn--xample-9ua.com"
	case "localhost":
		host = "localhost"
	case "ipv4":
		host = "127.0.0.1"
	case "ipv6":
		if c.Host.Len > 10 {
			host = "[1111:2222:3333:4444:5555:6666:7777:8888]"
		} else {
			host = "[::1]"
		}
	}
	switch c.Host.Defect {
	case "unicode":
		// 2-byte, 3-byte (incl. characters whose UTF-8 bytes are ASCII label bytes + 0x80) and 4-byte characters; runes whose
		// case mapping is ASCII; at the start, inside and at the end of the host
		u := []string{"résumé", "\u5c31", "\u4e2d", "\uac30", "\U0001F600", "\u212a", "\u0130", "exa\u5c39mple", "\u00df"}[rng.Intn(9)]
		switch rng.Intn(3) {
		case 0:
			host = u + "." + host
		case 1:
			host = host + "." + u
		default:
			host = "a" + u + "." + host
		}
	case "upper":
		host = strings.ToUpper(host[:1]) + host[1:]
	case "space":
		host = host[:1] + " " + host[1:]
	case "emptylabel":
		host = "a.." + host
	case "leaddot":
		host = "." + host
	case "badpuny":
		host = "www.xn--.com"
	case "v4noncanon":
		host = []string{"127.000.0.1", "0x7f000001", "127.0.0.0x1", "127.1", "2130706433", "0177.0.0.1", "10.0.0.0xa"}[rng.Intn(7)]
	case "v4overflow":
		host = "256.0.0.1"
	case "v4extra":
		host = "127.0.0.1.5"
	case "v6noncanon":
		host = "[0:0:0:0:0:0:0:1]"
	case "v6zone":
		host = "[fe80::1%eth0]"
	case "v4mapped":
		host = "[::ffff:1.2.3.4]"
	case "v6nobracket":
		host = "::1"
	}
	if c.Host.TDot {
		host += "."
	}
	switch c.Wild {
	case "lead":
		host = "*." + host
	case "inner":
		host = "a.*." + host
	case "partial":
		host = "*" + host
	case "bare":
		host = "*"
	case "double":
		host = "**." + host
	}
	var port string
	switch c.Port.Kind {
	case "star":
		port = ":*"
	case "num":
		d := fmt.Sprint(c.Port.Val)
		if c.Port.LeadZero {
			for len(d) < c.Port.Digits {
				d = "0" + d
			}
		}
		port = ":" + d
	case "empty":
		port = ":"
	case "junk":
		port = ":8a"
	case "neg":
		port = ":-1"
	case "starjunk":
		port = ":*8"
	case "wrap32": // 2^32 + 80
		port = ":4294967376"
	case "wrap64": // 2^64 + 80
		port = ":18446744073709551696"
	}
	long := ""
	if rng.Intn(3) == 0 { // the defect may be arbitrarily long: the error must still name the WHOLE string
		long = strings.Repeat("0123456789abcdef", 70+rng.Intn(200))
	}
	s := scheme + sep
	if c.Tail == "userinfo" {
		s += "user" + long + "@"
	}
	s += host + port
	switch c.Tail {
	case "slash":
		s += "/"
	case "path":
		s += "/path" + long
	case "query":
		s += "?q=1" + long
	case "fragment":
		s += "#f" + long
	case "wsbefore":
		s = " " + s
	case "wsafter":
		s += " "
	}
	return s
}

func cmdC13(args []string) {
	fs := flag.NewFlagSet("c13", flag.ExitOnError)
	cases := fs.String("cases", "", "candidates written by TLC (PatternMC.tla)")
	trace := fs.String("trace", "", "NDJSON trace")
	stride := fs.Int("stride", 1, "replay every stride-th case")
	out := fs.String("out", "", "summary JSON")
	fs.Parse(args)
	rng := newRand()
	t := newTracer(*trace)
	defer t.close()
	seen := map[string]bool{}
	n, accepted, idx := 0, 0, 0
	off := int(seedFromEnv()) % *stride
	var samples []any
	readCases(*cases, func(line []byte) {
		var rec struct {
			C patComp `json:"c"`
		}
		if err := json.Unmarshal(line, &rec); err != nil {
			fatal("bad case: %v", err)
		}
		key, _ := json.Marshal(rec.C)
		if seen[string(key)] {
			return
		}
		seen[string(key)] = true
		idx++
		if (idx+off)%*stride != 0 {
			return
		}
		s := rec.C.build(rng)
		var raw any
		json.Unmarshal(key, &raw)
		ev := map[string]any{"ev": "Pat", "c": raw, "len": len(s), "accepted": false, "errtype": "", "valueok": false, "self": false, "selfpf": false, "panicked": false}
		disp := s
		if len(disp) > 120 {
			disp = disp[:60] + "..." + disp[len(disp)-50:]
		}
		ev["s"] = disp
		func() {
			defer func() {
				if p := recover(); p != nil {
					ev["panicked"] = true
				}
			}()
			m, err := cors.NewMiddleware(cors.Config{Origins: []string{s}, ExtraConfig: cors.ExtraConfig{DangerouslyTolerateSubdomainsOfPublicSuffixes: true}})
			if err == nil {
				ev["accepted"] = true
				accepted++
				act, pf := originAllowedByMiddleware(m.Wrap(okHandler), s)
				ev["self"], ev["selfpf"] = act, pf
				return
			}
			cnt := 0
			for e := range cfgerrors.All(err) {
				cnt++
				if x, ok := e.(*cfgerrors.UnacceptableOriginPatternError); ok && x != nil {
					ev["errtype"] = "UnacceptableOriginPatternError"
					ev["valueok"] = x.Value == s
					ev["reason"] = x.Reason
				} else {
					ev["errtype"] = fmt.Sprintf("%T", e)
				}
			}
			ev["nerrs"] = cnt
		}()
		// the same string next to other (valid) entries of the list, before and after them: the verdict on a pattern must not
		// depend on its neighbours or its position
		ctxs := []map[string]any{}
		lists := [][]string{{"*", s}, {s, "*"}, {"https://ctx.example", s}, {s, "https://ctx.example"}, {"*", "https://ctx.example", s}}
		// ... and next to a pattern that ALMOST covers it: `*.` + the parent domain of its host under the same scheme but with
		// another port (and with no port), listed before and after it - the pattern must still allow itself
		if i := strings.Index(s, "://"); i > 0 && rec.C.Host.Kind == "domain" && rec.C.Wild == "none" && rec.C.Sep == "ok" && rec.C.Tail == "none" {
			hostport := s[i+3:]
			host := hostport
			if j := strings.LastIndexByte(hostport, ':'); j >= 0 {
				host = hostport[:j]
			}
			if k := strings.IndexByte(host, '.'); k > 0 && k+1 < len(host) && len(host) < 200 {
				parent := s[:i+3] + "*." + host[k+1:]
				lists = append(lists, []string{parent + ":7", s}, []string{s, parent + ":7"}, []string{parent, s, parent + ":9"})
			}
		}
		// ... and next to the SAME host under another scheme with another port (schemes that sort after and before its own):
		// entries that share a tree node must not disturb one another
		if i := strings.Index(s, "://"); i > 0 && rec.C.Wild == "none" && rec.C.Sep == "ok" && rec.C.Tail == "none" && rec.C.Host.Defect == "none" && len(s) < 200 {
			hostport := s[i+3:]
			host := hostport
			if j := strings.LastIndexByte(hostport, ':'); j >= 0 && !strings.HasSuffix(hostport, "]") {
				host = hostport[:j]
			}
			lists = append(lists, []string{"zzz://" + host + ":7", s}, []string{s, "a+a://" + host + ":7"}, []string{"zzz://" + host + ":*", s, "a+a://" + host})
		}
		for ci, list := range lists {
			cx := map[string]any{"k": ci, "accepted": false, "named": false, "panicked": false, "self": false}
			func() {
				defer func() {
					if p := recover(); p != nil {
						cx["panicked"] = true
					}
				}()
				mc, err := cors.NewMiddleware(cors.Config{Origins: list, ExtraConfig: cors.ExtraConfig{DangerouslyTolerateSubdomainsOfPublicSuffixes: true}})
				cx["accepted"] = err == nil
				if err == nil {
					act, pf := originAllowedByMiddleware(mc.Wrap(okHandler), s)
					if slices.Contains(list, "*") { // allow-all answers `*`, not an echo
						wa := newRec()
						mc.Wrap(okHandler).ServeHTTP(wa, newReq("GET", http.Header{"Origin": {s}}))
						v := wa.final()["Access-Control-Allow-Origin"]
						act, pf = len(v) == 1 && v[0] == "*", true
					}
					cx["self"] = act && pf
				}
				if err != nil {
					for e := range cfgerrors.All(err) {
						if x, ok := e.(*cfgerrors.UnacceptableOriginPatternError); ok && x != nil && x.Value == s {
							cx["named"] = true
						}
					}
				}
			}()
			ctxs = append(ctxs, cx)
		}
		ev["ctx"] = ctxs
		// ... and in configurations that are unacceptable for a reason that has nothing to do with the pattern (another field, the
		// extra configuration): every problem is reported, so a defective pattern is still named - and a valid one never is
		octx := []map[string]any{}
		others := []cors.Config{
			{ExtraConfig: cors.ExtraConfig{PrivateNetworkAccess: true, PrivateNetworkAccessInNoCORSModeOnly: true}},
			{ExtraConfig: cors.ExtraConfig{PreflightSuccessStatus: 199 + 101*(n%2)}},
			{MaxAgeInSeconds: -2 - n%3},
			{Methods: []string{"PUT", "GE T"}},
			{RequestHeaders: []string{"X-Ok", "bad header"}},
			{ResponseHeaders: []string{"*"}, Credentialed: true},
			{ResponseHeaders: []string{"X-Ok", "Set-Cookie"}, Methods: []string{"CONNECT"}, MaxAgeInSeconds: 86401, ExtraConfig: cors.ExtraConfig{PreflightSuccessStatus: 404}},
		}
		for oi, oc := range others {
			oc.ExtraConfig.DangerouslyTolerateSubdomainsOfPublicSuffixes = true
			oc.ExtraConfig.DangerouslyTolerateInsecureOrigins = true
			oc.Origins = [][]string{{s}, {"https://ctx.example", s}, {s, "https://ctx.example"}}[(n+oi)%3]
			cx := map[string]any{"k": oi, "accepted": false, "named": false, "panicked": false}
			func() {
				defer func() {
					if p := recover(); p != nil {
						cx["panicked"] = true
					}
				}()
				_, err := cors.NewMiddleware(oc)
				cx["accepted"] = err == nil
				if err != nil {
					for e := range cfgerrors.All(err) {
						if x, ok := e.(*cfgerrors.UnacceptableOriginPatternError); ok && x != nil && x.Value == s {
							cx["named"] = true
						}
					}
				}
			}()
			octx = append(octx, cx)
		}
		ev["octx"] = octx
		t.emit(ev)
		n++
		if len(samples) < 4 && n%997 == 3 {
			samples = append(samples, map[string]any{"pattern": disp, "accepted": ev["accepted"]})
		}
	})
	writeJSON(*out, map[string]any{"candidates": n, "accepted": accepted, "events": t.n, "samples": samples})
}

var _ = http.StatusOK

// ---------------------------------------------------------------- binding G: replay of PatParseMC's byte strings

func cmdC13Gen(args []string) {
	fs := flag.NewFlagSet("c13gen", flag.ExitOnError)
	cases := fs.String("cases", "", "byte strings written by TLC (PatParseMC.tla)")
	out := fs.String("out", "", "summary JSON")
	fs.Parse(args)
	type cs struct {
		B    []int `json:"b"`
		Acc  bool  `json:"acc"`
		Doc  bool  `json:"doc"`
		Grey bool  `json:"grey"`
	}
	var n, accepted, drift, judged int
	var drifts, violations []map[string]any
	var samples []any
	readCases(*cases, func(line []byte) {
		var c cs
		if err := json.Unmarshal(line, &c); err != nil {
			fatal("bad case: %v", err)
		}
		s := fromCodes(c.B)
		n++
		var got, valueOK, self, panicked bool
		errType := ""
		func() {
			defer func() {
				if p := recover(); p != nil {
					panicked = true
				}
			}()
			m, err := cors.NewMiddleware(cors.Config{Origins: []string{s}, ExtraConfig: cors.ExtraConfig{DangerouslyTolerateSubdomainsOfPublicSuffixes: true}})
			got = err == nil
			if got {
				a, p := originAllowedByMiddleware(m.Wrap(okHandler), s)
				self = a && p
				return
			}
			for e := range cfgerrors.All(err) {
				if x, ok := e.(*cfgerrors.UnacceptableOriginPatternError); ok && x != nil {
					errType, valueOK = "UnacceptableOriginPatternError", x.Value == s
				} else {
					errType = fmt.Sprintf("%T", e)
				}
			}
		}()
		if got {
			accepted++
		}
		if got != c.Acc {
			drift++
			if len(drifts) < 10 {
				drifts = append(drifts, map[string]any{"pattern": s, "model_accepts": c.Acc, "real_accepts": got})
			}
		}
		if !c.Grey && !panicked {
			judged++
			why := ""
			switch {
			case c.Doc && !got:
				why = "a pattern of the documented form was rejected"
			case !c.Doc && got:
				why = "a string that is not of the documented form was accepted"
			case !got && (errType != "UnacceptableOriginPatternError" || !valueOK):
				why = "rejected, but not with an UnacceptableOriginPatternError naming the string"
			case got && !strings.Contains(s, "*") && !self:
				why = "an accepted wildcard-free pattern presented verbatim as Origin is not allowed"
			}
			if why != "" && len(violations) < 30 {
				violations = append(violations, map[string]any{"pattern": s, "why": why, "accepted": got})
			}
		}
		if got && len(samples) < 5 && n%977 == 1 {
			samples = append(samples, s)
		}
	})
	writeJSON(*out, map[string]any{"cases": n, "accepted": accepted, "judged": judged, "drift": drift, "drifts": drifts, "violations": violations, "samples": samples})
}
