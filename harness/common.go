// Package main is the Go side of the bindings between the TLA+ specification suite in
// /verif/spec and the real jub0bs/cors code. It only ever uses the public API of
// github.com/jub0bs/cors, github.com/jub0bs/cors/cfgerrors and net/http.
//
// The driver takes NO decisions about properties: it concretises abstract cases produced by
// TLC, runs the real code, and records what it observed (NDJSON traces that TLC validates, or
// bit-for-bit comparisons against verdicts that TLC computed when it generated the cases).
package main

import (
	"bufio"
	"encoding/json"
	"fmt"
	"math/rand"
	"net/http"
	"os"
	"runtime"
	"sort"
	"strconv"
	"strings"
	"sync"
	"sync/atomic"
	"time"

	"github.com/jub0bs/cors"
)

// ---------------------------------------------------------------- response recorder

// rec is a minimal http.ResponseWriter that records what a handler chain does to it.
type rec struct {
	h        http.Header
	status   int // first status passed to WriteHeader (0 if never called)
	nWH      int // number of WriteHeader calls
	body     []byte
	snapshot http.Header // header map as it was when the status was committed
	noAppend bool
}

// appendingWriters: every recorder behaves like the ResponseWriter of a compression / logging layer: when the status is
// committed it ADDS a value to the header fields that are there (Header.Add: an append to the slice the middleware put there).
// What the client sees is recorded first; the appended values only exist so that a slice the library still uses - with spare
// capacity behind it - is found out by what later responses look like.
var appendingWriters = true
var appendSeq atomic.Int64

func newRec() *rec { return &rec{h: make(http.Header)} }

func (r *rec) Header() http.Header { return r.h }
func (r *rec) WriteHeader(code int) {
	r.nWH++
	if r.status == 0 {
		r.status = code
		r.snapshot = cloneHeader(r.h)
		if appendingWriters && !r.noAppend {
			// (another value each time: what one response leaves behind in shared storage differs from what the next one leaves)
			n := appendSeq.Add(1)
			for k, v := range r.h {
				r.h[k] = append(v, "appended-by-the-writer-"+strconv.FormatInt(n, 10))
			}
		}
	}
}
func (r *rec) Write(b []byte) (int, error) {
	if r.status == 0 {
		r.WriteHeader(http.StatusOK)
	}
	r.body = append(r.body, b...)
	return len(b), nil
}

// final returns the headers as a client would see them (those present when the status was
// committed; all of them if the handler never wrote).
func (r *rec) final() http.Header {
	if r.snapshot != nil {
		return r.snapshot
	}
	return r.h
}

func cloneHeader(h http.Header) http.Header {
	out := make(http.Header, len(h))
	for k, v := range h {
		if v == nil {
			out[k] = nil
			continue
		}
		c := make([]string, len(v))
		copy(c, v)
		out[k] = c
	}
	return out
}

// ---------------------------------------------------------------- requests

// newReq builds the *http.Request a net/http server would hand to a handler: canonical header
// keys, values exactly as given. hdr values may be nil or zero-length (programmatic callers).
func newReq(method string, hdr http.Header) *http.Request {
	r, err := http.NewRequest("GET", "http://server.test/resource", nil)
	if err != nil {
		panic(err)
	}
	r.Method = method
	r.Header = hdr
	return r
}

// constant inner handler used when the property does not care about the handler
var okHandler = http.HandlerFunc(func(w http.ResponseWriter, _ *http.Request) {
	commitAndEdit(w, w.Header(), 200)
})

// commitAndEdit: the handler keeps the header values it was given (the slices themselves), commits the response, and then edits
// what it kept.
func commitAndEdit(w http.ResponseWriter, live http.Header, code int) {
	held := make(http.Header, len(live))
	for k, v := range live {
		held[k] = v
	}
	w.WriteHeader(code)
	afterCommit(held)
}

// afterCommit: what a handler may still do once the status is committed - nothing the client sees any more: it edits in place,
// up to their capacity, the response-header values it can reach ("one more name" added to each, another one each time). Storage
// the library still uses is found out by what later responses, or Config(), look like.
func afterCommit(h http.Header) {
	n := strconv.FormatInt(appendSeq.Add(1), 10)
	for k, v := range h {
		v = v[:cap(v)]
		for i := range v {
			if k == "Access-Control-Allow-Origin" && v[i] != editedOrigin && !strings.HasPrefix(v[i], editedOrigin+",") {
				// an origin-valued field is REPLACED by an origin no configuration of the drivers allows (if the same storage is edited
				// again it gets "one more name" like the others): storage the library still consults when it decides about origins
				// - a memo of the last allowed origin, say - now holds it, and the probe suites offer exactly this value as an Origin
				// right after requests from allowed origins
				v[i] = editedOrigin
				continue
			}
			v[i] += ",x-edited-after-commit-" + n
		}
	}
}

const editedOrigin = "https://evil.example" // scribbleWords[1]: what in-place edits write where an origin belongs

// ---------------------------------------------------------------- byte helpers

func codes(s string) []int {
	out := make([]int, len(s))
	for i := 0; i < len(s); i++ {
		out[i] = int(s[i])
	}
	return out
}

func fromCodes(c []int) string {
	b := make([]byte, len(c))
	for i, x := range c {
		b[i] = byte(x)
	}
	return string(b)
}

// ---------------------------------------------------------------- NDJSON trace writer

type tracer struct {
	mu  sync.Mutex
	f   *os.File
	w   *bufio.Writer
	n   int
	enc *json.Encoder
	// autoflush: every event reaches the file at once (the life-cycle driver: a Go fatal error inside the library must not take
	// the observations made before it along)
	autoflush bool
}

func newTracer(path string) *tracer {
	f, err := os.Create(path)
	if err != nil {
		fatal("create trace: %v", err)
	}
	w := bufio.NewWriterSize(f, 1<<20)
	enc := json.NewEncoder(w)
	enc.SetEscapeHTML(false)
	return &tracer{f: f, w: w, enc: enc}
}

func (t *tracer) emit(ev map[string]any) {
	t.mu.Lock()
	defer t.mu.Unlock()
	if err := t.enc.Encode(ev); err != nil {
		fatal("encode: %v", err)
	}
	t.n++
	if t.autoflush {
		t.w.Flush()
	}
}

func (t *tracer) close() {
	t.w.Flush()
	t.f.Close()
}

// ---------------------------------------------------------------- watchdog
// A driver whose main goroutine blocks INSIDE the library (a lock that is never released, a call that never returns) would run
// into the harness time-out and end without a verdict. When no event has been recorded for `quiet`, the watchdog looks at the
// goroutine stacks twice, three seconds apart; if the same goroutine is blocked in the same function of the library both times it
// (1) sends one plain request through the middleware used last, to see whether requests still get through, (2) hands a Hang
// event to `finish`, which records it and ends the run in order: the trace recorded so far - and the event - are judged by the
// trace specification.
var lastMW atomic.Pointer[cors.Middleware]

var blockedStates = []string{"sync.", "semacquire", "chan receive", "chan send", "select"}

// blockedInLibrary returns "goroutine N|function" for the first goroutine that is blocked with a library frame on its stack.
func blockedInLibrary() string {
	buf := make([]byte, 4<<20)
	buf = buf[:runtime.Stack(buf, true)]
	for _, g := range strings.Split(string(buf), "\n\n") {
		lines := strings.Split(g, "\n")
		if len(lines) < 2 || !strings.HasPrefix(lines[0], "goroutine ") {
			continue
		}
		i := strings.IndexByte(lines[0], '[')
		if i < 0 {
			continue
		}
		state, blocked := lines[0][i+1:], false
		for _, b := range blockedStates {
			blocked = blocked || strings.HasPrefix(state, b)
		}
		if !blocked || strings.Contains(g, "main.(*tracer).watchdog") {
			continue
		}
		for _, ln := range lines[1:] {
			if strings.HasPrefix(ln, "github.com/jub0bs/cors") {
				if k := strings.IndexByte(ln, '('); k > 0 && !strings.HasPrefix(ln[k:], "(*") {
					ln = ln[:k]
				} else if k := strings.LastIndexByte(ln, '('); k > 0 {
					ln = ln[:k]
				}
				return strings.Fields(lines[0])[1] + "|" + ln
			}
		}
	}
	return ""
}

func (t *tracer) watchdog(quiet time.Duration, finish func(hang map[string]any)) {
	go func() {
		last, since := -1, time.Now()
		for {
			time.Sleep(time.Second)
			t.mu.Lock()
			n := t.n
			t.mu.Unlock()
			if n != last {
				last, since = n, time.Now()
				continue
			}
			if time.Since(since) < quiet {
				continue
			}
			first := blockedInLibrary()
			time.Sleep(3 * time.Second)
			if second := blockedInLibrary(); first == "" || second != first {
				since = time.Now() // busy, not blocked; or not the library's doing
				continue
			}
			where := first[strings.IndexByte(first, '|')+1:]
			reqHang := false
			if m := lastMW.Load(); m != nil {
				done := make(chan bool, 1)
				go func() {
					defer func() { recover() }()
					m.Wrap(okHandler).ServeHTTP(newRec(), newReq("GET", http.Header{}))
					done <- true
				}()
				select {
				case <-done:
				case <-time.After(5 * time.Second):
					reqHang = true
				}
			}
			what := "a call of " + where + " has not returned (no progress for " + quiet.String() + ")"
			if reqHang {
				what += "; a plain GET request sent through the same middleware afterwards does not get through either (5 s)"
			}
			finish(map[string]any{"ev": "Hang", "by": "watchdog", "where": where, "reqhang": reqHang, "what": what, "m": "GET", "req": map[string]any{}, "dbg": false})
			return
		}
	}()
}

// ---------------------------------------------------------------- misc

func fatal(format string, a ...any) {
	fmt.Fprintf(os.Stderr, "driver: "+format+"\n", a...)
	os.Exit(2) // infrastructure failure, never a verdict
}

func seedFromEnv() int64 {
	s := os.Getenv("VERIF_SEED")
	if s == "" {
		return 1
	}
	n, err := strconv.ParseInt(s, 10, 64)
	if err != nil {
		return 1
	}
	return n
}

func newRand() *rand.Rand { return rand.New(rand.NewSource(seedFromEnv())) }

func writeJSON(path string, v any) {
	b, err := json.MarshalIndent(v, "", " ")
	if err != nil {
		fatal("marshal: %v", err)
	}
	if err := os.WriteFile(path, b, 0o644); err != nil {
		fatal("write %s: %v", path, err)
	}
}

func readJSON(path string, v any) {
	b, err := os.ReadFile(path)
	if err != nil {
		fatal("read %s: %v", path, err)
	}
	if err := json.Unmarshal(b, v); err != nil {
		fatal("parse %s: %v", path, err)
	}
}

// readCases reads a file written by TLC's CSVWrite("%1$s", <<ToJson(x)>>, file): one line per
// case; depending on the TLC version a line is either the JSON text itself or a JSON string
// holding it.
func readCases(path string, each func(line []byte)) {
	f, err := os.Open(path)
	if err != nil {
		fatal("open %s: %v", path, err)
	}
	defer f.Close()
	sc := bufio.NewScanner(f)
	sc.Buffer(make([]byte, 1<<20), 1<<26)
	for sc.Scan() {
		b := sc.Bytes()
		if len(b) == 0 {
			continue
		}
		if b[0] == '"' {
			var s string
			if err := json.Unmarshal(b, &s); err != nil {
				fatal("bad case line: %v", err)
			}
			b = []byte(s)
		}
		c := make([]byte, len(b))
		copy(c, b)
		each(c)
	}
	if err := sc.Err(); err != nil {
		fatal("scan %s: %v", path, err)
	}
}

func sortedKeys[M ~map[string]V, V any](m M) []string {
	ks := make([]string, 0, len(m))
	for k := range m {
		ks = append(ks, k)
	}
	sort.Strings(ks)
	return ks
}

func lower(s string) string { return strings.ToLower(s) }
