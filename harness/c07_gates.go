//go:build verifgates

package main

import "github.com/jub0bs/cors/zzvsync"

// installMutexGate wires the instrumented mutexes of the scratch copy to the schedule controller.
func installMutexGate(f func(kind string)) bool {
	if f == nil {
		zzvsync.Gate.Store(nil)
	} else {
		zzvsync.Gate.Store(&f)
	}
	return true
}
