package main

import (
	"encoding/json"
	"crypto/tls"
	"flag"
	"io"
	"os"
	"time"
	"fmt"
	"math/rand"
	"net/http"
	"slices"
	"sort"
	"strings"

	"github.com/jub0bs/cors"
)

// A reqSpec is one request to be served: method + header map exactly as handed to the handler.
type reqSpec struct {
	Method string
	H      http.Header
	Note   string
	// Shape varies what a handler sees of the request BESIDES method and header fields: 0 = no body; 1 = a one-byte body
	// with Content-Length 1; 2 = a chunked body (ContentLength -1); 3 = another URL path and query, Host and RemoteAddr;
	// 4 = HTTP/1.0; 5 = HTTP/2; 6 = over TLS; 7 / 8 = Host equal to the Origin's authority (plain / TLS); 9 = target `*`.
	// None of it is covered by Vary, and none of it may matter to the middleware.
	Shape int
}

func (rs reqSpec) build() *http.Request {
	// (a copy: the library echoes by sub-slicing the request's own header slices, so what a writer or handler appends to a response
	// header can land in the request's header map - which must not be the specification of the NEXT request too)
	r := newReq(rs.Method, cloneHeader(rs.H))
	switch rs.Shape {
	case 1:
		r.Body, r.ContentLength = io.NopCloser(strings.NewReader("x")), 1
	case 2:
		r.Body, r.ContentLength, r.TransferEncoding = io.NopCloser(strings.NewReader("xyz")), -1, []string{"chunked"}
	case 3:
		r.URL.Path, r.URL.RawQuery, r.Host, r.RemoteAddr, r.RequestURI = "/other/path", "q=1&origin=https://evil.example", "other.test:8443", "10.1.2.3:999", "/other/path?q=1"
	case 4:
		r.Proto, r.ProtoMajor, r.ProtoMinor = "HTTP/1.0", 1, 0
	case 5:
		r.Proto, r.ProtoMajor, r.ProtoMinor = "HTTP/2.0", 2, 0
	case 6:
		r.TLS = &tls.ConnectionState{}
		r.URL.Scheme = "https"
	case 7, 8:
		// the request is addressed to the very authority its Origin names (what a same-origin request looks like), over
		// plain HTTP (7) or TLS (8)
		if o := r.Header.Get(hOrigin); strings.Contains(o, "://") {
			r.Host = o[strings.Index(o, "://")+3:]
			r.URL.Host = r.Host
		}
		if rs.Shape == 8 {
			r.TLS = &tls.ConnectionState{}
			r.URL.Scheme = "https"
		}
	case 9:
		r.RequestURI = "*" // the asterisk-form request target (OPTIONS *)
		r.URL.Path = "*"
	}
	return r
}

const (
	hOrigin = "Origin"
	hACRM   = "Access-Control-Request-Method"
	hACRH   = "Access-Control-Request-Headers"
	hACRPN  = "Access-Control-Request-Private-Network"
)

// allowedOrigin returns an origin the Sem allows (any origin for allow-all configurations).
func allowedOrigin(rng *rand.Rand, s Sem) cOrigin {
	for _, p := range s.Pats {
		return originFromPattern(rng, p)
	}
	return cOrigin{Scheme: "https", Host: "allowed.example.com"}
}

// valueVariants: the representations of "header with these field lines" that a handler can be
// handed: key absent / nil slice / zero-length slice are the three spellings of "no field line".
func setHeader(h http.Header, k string, lines []string, variant int) {
	if len(lines) == 0 {
		switch variant % 3 {
		case 0: // absent
		case 1:
			h[k] = nil
		case 2:
			h[k] = []string{}
		}
		return
	}
	h[k] = lines
}

// universeRequests: the structured request universe used for the pair property C10 and for
// C11/C16: every combination of method and presence/emptiness/multiplicity of the CORS request
// headers, plus an unrelated header.
func universeRequests(rng *rand.Rand, s Sem, big bool) []reqSpec {
	a := allowedOrigin(rng, s).String()
	other := "https://not-allowed.example.org"
	origins := [][]string{nil, {a}, {other}, {"junk"}, {a, other}, {""}}
	acrms := [][]string{nil, {"GET"}, {"PUT"}, {""}}
	acrhs := [][]string{nil, {"x-a"}, {"x-zzz-not-allowed"}}
	if len(s.HNames) > 0 {
		acrhs = append(acrhs, []string{strings.Join(s.HNames, ",")})
	}
	acrpns := [][]string{nil, {"true"}}
	methods := []string{"GET", "OPTIONS", "PUT"}
	if big {
		origins = append(origins, []string{other, a}, []string{"null"}, []string{strings.ToUpper(a)})
		acrms = append(acrms, []string{"DELETE", "PUT"}, []string{"put"})
		acrhs = append(acrhs, []string{"x-a", "x-b"}, []string{"authorization"}, []string{""})
		acrpns = append(acrpns, []string{"false"}, []string{"false", "true"})
		methods = append(methods, "POST", "options")
	}
	var out []reqSpec
	v := 0
	for _, m := range methods {
		for _, o := range origins {
			for _, am := range acrms {
				for _, ah := range acrhs {
					for _, ap := range acrpns {
						for _, unrelated := range []bool{false, true} {
							if !big && unrelated && rng.Intn(3) != 0 {
								continue
							}
							if big && rng.Intn(6) != 0 { // the full product has ~19 000 requests: keep a seeded sixth
								continue
							}
							h := http.Header{}
							v++
							setHeader(h, hOrigin, o, v)
							setHeader(h, hACRM, am, v/3)
							setHeader(h, hACRH, ah, v/9)
							setHeader(h, hACRPN, ap, v/27)
							if unrelated {
								h["X-Unrelated"] = []string{"1"}
								h["Cookie"] = []string{"a=b"}
							}
							out = append(out, reqSpec{Method: m, H: h})
						}
					}
				}
			}
		}
	}
	return out
}

// emptyElementProbes: preflights whose Access-Control-Request-Headers lists name a STRICT SUBSET of the allowed names (in browser form:
// lower case, sorted) padded with empty list elements - up to the 16 the library tolerates - at the end, at the start, between the
// names and on lines of their own, so that every total element count from the number of names up to the size of the allow-list (and
// beyond) occurs. Whatever is counted, compared or memoised per ELEMENT instead of per name shows here; with debug off the
// response may name nothing but what the request named (C16), and the list is approved (C14).
func emptyElementProbes(rng *rand.Rand, s Sem) []reqSpec {
	if len(s.HNames) < 2 {
		return nil
	}
	a := allowedOrigin(rng, s).String()
	meth := "GET"
	if len(s.Meths) > 0 {
		meth = s.Meths[0]
	}
	hs := sortedCopy(s.HNames)
	for i := range hs {
		hs[i] = strings.ToLower(hs[i])
	}
	sort.Strings(hs)
	pf := func(lines ...string) reqSpec {
		return reqSpec{Method: "OPTIONS", H: http.Header{hOrigin: {a}, hACRM: {meth}, hACRH: lines}}
	}
	var out []reqSpec
	n := len(hs)
	for k := 1; k <= 2 && k < n; k++ {
		names := strings.Join(hs[n-k:], ",") // the LAST names of the sorted list, so that the subset is not a prefix of it
		for pad := 1; pad <= 16; pad++ {
			out = append(out, pf(names+strings.Repeat(",", pad)))
		}
		if d := n - k; d >= 1 && d <= 16 {
			out = append(out, pf(strings.Repeat(",", d)+names), pf(names, strings.Repeat(",", d-1)), pf(strings.Repeat(",", d-1), names))
			if k == 2 {
				out = append(out, pf(hs[n-2]+strings.Repeat(",", d+1)+hs[n-1]))
			}
		}
	}
	return out
}

// methodProbes: request methods that are NOT `OPTIONS` byte for byte but become it under some normalisation (net/http hands mixed-case
// and unknown methods to handlers as they are), near-misses of it, and the other standard methods in both cases - each with the header
// shapes of a preflight, of an actual request and of a non-CORS request. Only the exact method OPTIONS with Origin and
// Access-Control-Request-Method is a preflight; everything else belongs to the wrapped handler.
func methodProbes(rng *rand.Rand, s Sem) []reqSpec {
	a := allowedOrigin(rng, s).String()
	other := "https://not-allowed.example.org"
	var out []reqSpec
	for _, m := range []string{"options", "Options", "oPTIONS", "OPTIONs", "OPTION", "OPTIONSS", "get", "Get", "HEAD", "head", "CONNECT", "TRACE",
		"PATCH", "patch", "QUERY", "Put"} {
		out = append(out,
			reqSpec{Method: m, H: http.Header{hOrigin: {a}, hACRM: {"PUT"}}},
			reqSpec{Method: m, H: http.Header{hOrigin: {a}, hACRM: {"GET"}, hACRH: {"x-a"}}},
			reqSpec{Method: m, H: http.Header{hOrigin: {other}, hACRM: {"GET"}}},
			reqSpec{Method: m, H: http.Header{hOrigin: {a}}},
			reqSpec{Method: m, H: http.Header{hACRM: {"PUT"}}})
	}
	return out
}

// crossProbes: for every two listed patterns that share a host (or wildcard base), the origins that COMBINE them - the scheme of
// one with the port of the other - and, for every pattern, its neighbours in each dimension (other scheme, other port, no
// port, parent and child host). None of these is allowed unless some pattern really denotes it: TLC decides.
func crossProbes(rng *rand.Rand, s Sem) []reqSpec {
	seen := map[string]bool{}
	var out []reqSpec
	add := func(scheme, host string, port int) {
		if port == anyPort {
			port = 4711
		}
		o := serializeOrigin(scheme, host, port)
		if seen[o] || len(out) >= 80 {
			return
		}
		seen[o] = true
		out = append(out, reqSpec{Method: "GET", H: http.Header{hOrigin: {o}}},
			reqSpec{Method: "OPTIONS", H: http.Header{hOrigin: {o}, hACRM: {"GET"}}})
	}
	hostOf := func(p cPattern) string {
		if p.Wild {
			return "x." + p.Host
		}
		return p.Host
	}
	// the TEXT of a listed pattern sent as Origin (`https://example.com:*`, `https://*.example.com`): a pattern is not an origin
	for i, p := range s.Pats {
		if raw := p.String(); i < 8 && !seen[raw] {
			seen[raw] = true
			out = append(out, reqSpec{Method: "GET", H: http.Header{hOrigin: {raw}}},
				reqSpec{Method: "OPTIONS", H: http.Header{hOrigin: {raw}, hACRM: {"GET"}}})
		}
	}
	for i, p := range s.Pats {
		for j, q := range s.Pats {
			if i != j && p.Host == q.Host && p.Wild == q.Wild && (p.Scheme != q.Scheme || p.Port != q.Port) {
				add(p.Scheme, hostOf(p), q.Port)
				add(q.Scheme, hostOf(p), p.Port)
			}
		}
		if i < 6 {
			other := "http"
			if p.Scheme == "http" {
				other = "https"
			}
			add(other, hostOf(p), p.Port)
			add(p.Scheme, hostOf(p), 0)
			add(p.Scheme, hostOf(p), 8443)
			add(p.Scheme, "sub."+hostOf(p), p.Port)
			if k := strings.IndexByte(p.Host, '.'); k > 0 && !strings.HasPrefix(p.Host, "[") {
				add(p.Scheme, p.Host[k+1:], p.Port)
			}
		}
	}
	return out
}

// shapeProbes: preflight-shaped and actual requests that differ from one another only in what Vary cannot name (body,
// Content-Length, transfer coding, URL, Host, remote address).
func shapeProbes(rng *rand.Rand, s Sem) []reqSpec {
	a := allowedOrigin(rng, s).String()
	other := "https://not-allowed.example.org"
	var out []reqSpec
	for _, o := range []string{a, other} {
		for _, acrm := range []string{"GET", "PUT", "NOSUCHMETHOD"} {
			for shape := 0; shape <= 9; shape++ {
				out = append(out, reqSpec{Method: "OPTIONS", H: http.Header{hOrigin: {o}, hACRM: {acrm}}, Shape: shape})
			}
			// request header fields that Vary does NOT name (Fetch metadata, content negotiation, credentials, upgrade): two
			// requests that differ only in them are cache-equivalent
			for _, extra := range []http.Header{
				{"Sec-Fetch-Mode": {"cors"}, "Sec-Fetch-Site": {"cross-site"}, "Sec-Fetch-Dest": {"empty"}},
				{"Sec-Fetch-Mode": {"no-cors"}}, {"Sec-Fetch-Mode": {"navigate"}, "Sec-Fetch-Dest": {"document"}, "Sec-Fetch-User": {"?1"}},
				{"Sec-Fetch-Mode": {"websocket"}, "Upgrade": {"websocket"}, "Connection": {"Upgrade"}}, {"Sec-Fetch-Mode": {"same-origin"}, "Sec-Fetch-Site": {"same-origin"}},
				{"Referer": {"https://referer.example/page"}}, {"Content-Type": {"application/json"}}, {"Authorization": {"Bearer x"}}, {"Cookie": {"sid=1"}},
				{"Accept": {"text/html"}, "Accept-Language": {"fr"}}, {"X-Forwarded-Proto": {"https"}, "X-Forwarded-Host": {"evil.example"}}, {"Host": {"evil.example"}},
				{"Sec-Purpose": {"prefetch"}}, {"Access-Control-Request-Credentials": {"true"}}, {"Timing-Allow-Origin": {"*"}},
			} {
				for _, meth := range []string{"OPTIONS", "GET"} {
					h := http.Header{hOrigin: {o}}
					if meth == "OPTIONS" {
						h[hACRM] = []string{acrm}
					}
					for k, v := range extra {
						h[k] = v
					}
					out = append(out, reqSpec{Method: meth, H: h})
				}
			}
		}
		for shape := 0; shape <= 9; shape++ {
			out = append(out, reqSpec{Method: "POST", H: http.Header{hOrigin: {o}}, Shape: shape},
				reqSpec{Method: "OPTIONS", H: http.Header{hOrigin: {o}}, Shape: shape})
			if shape == 0 || shape >= 6 {
				out = append(out, reqSpec{Method: "PUT", H: http.Header{hOrigin: {o}}, Shape: shape}, reqSpec{Method: "DELETE", H: http.Header{hOrigin: {o}}, Shape: shape},
					reqSpec{Method: "GET", H: http.Header{hOrigin: {o}}, Shape: shape})
			}
		}
	}
	return out
}

// scribbleServe serves a sample of the block's requests (unrecorded) through a handler that overwrites IN PLACE every element
// of every request- and response-header slice it can reach: what the middleware put there must not be storage it still uses.
func scribbleServe(m *cors.Middleware, reqs []reqSpec, dbg bool, salt int) {
	defer func() { recover() }() // panics are C17's business
	words := scribbleWords
	n := salt // different words each time: what one scribbling leaves behind differs from what the next one leaves
	scribbler := http.HandlerFunc(func(w http.ResponseWriter, r *http.Request) {
		n++
		scribbleHeader(w.Header(), words[n%len(words)])
		scribbleHeader(r.Header, words[(n+1)%len(words)])
		for _, v := range w.Header() { // ... and appends to an element, the way a handler "adds one more value"
			for i := range v {
				v[i] += ",X-Scribbled"
			}
		}
		w.WriteHeader(200)
	})
	step := len(reqs)/12 + 1
	for i := 0; i < len(reqs); i += step {
		rs := reqs[i]
		handlerFor(m, scribbler).ServeHTTP(newRec(), reqSpec{Method: rs.Method, H: cloneHeader(rs.H), Shape: rs.Shape}.build())
	}
}

// historyProbes: requests that differ from an EARLIER request of the same block only in what a per-middleware memo might
// key on: a preflight whose first ACRH line was approved alone before, followed by further lines; the same origin as actual
// request and as preflight; one origin after another.
func historyProbes(rng *rand.Rand, s Sem) []reqSpec {
	a := allowedOrigin(rng, s).String()
	other := "https://not-allowed.example.org"
	meth := "GET"
	if len(s.Meths) > 0 {
		meth = s.Meths[0]
	}
	first := "x-a"
	if len(s.HNames) > 0 {
		first = s.HNames[0]
	}
	all := first
	if len(s.HNames) > 1 {
		all = strings.Join(s.HNames, ",")
	}
	pf := func(o string, acrh ...string) reqSpec {
		h := http.Header{hOrigin: {o}, hACRM: {meth}}
		if len(acrh) > 0 {
			h[hACRH] = acrh
		}
		return reqSpec{Method: "OPTIONS", H: h}
	}
	get := func(o string) reqSpec { return reqSpec{Method: "GET", H: http.Header{hOrigin: {o}}} }
	var multi []reqSpec
	if len(s.HNames) >= 2 {
		// a SUCCESSFUL multi-line list, then its first line alone (and the reverse): what was approved or reflected for one
		// must not be replayed for the other
		hs := sortedCopy(s.HNames)
		multi = []reqSpec{pf(a, hs[0], hs[1]), pf(a, hs[0]), pf(a, hs[1]), pf(a, hs[0], hs[1]), pf(a, hs[0]+","+hs[1]), pf(a, hs[0])}
	}
	return append(multi, []reqSpec{
		pf(a, first), pf(a, first, "x-zzz-not-allowed"), pf(a, first, first), pf(a, all), pf(a, all, "x-zzz-not-allowed"), pf(a, first, ""),
		pf(a, "x-zzz-not-allowed"), pf(a, first),
		get(a), get(other), pf(a), pf(other), get(a), pf(other, first), get(other), get(a),
		// what the handlers write in place over origin-valued fields (afterCommit), offered right after a request from an allowed origin
		get(editedOrigin), get(a), pf(editedOrigin), get(a), get(a), get(editedOrigin),
	}...)
}

// ---------------------------------------------------------------- junk requests (C03 / C16 / C17)

var junkMethods = []string{"GET", "OPTIONS", "OPTIONS", "OPTIONS", "POST", "PUT", "options", "HEAD", "TRACE", "PATCH", "", "G\x00T", "Ünï"}

func junkBytes(rng *rand.Rand, n int) string {
	b := make([]byte, n)
	for i := range b {
		switch rng.Intn(6) {
		case 0:
			b[i] = byte(rng.Intn(256))
		case 1:
			const punct = ":/.[]@?#* \t,-_"
			b[i] = punct[rng.Intn(len(punct))]
		default:
			b[i] = ldh[rng.Intn(len(ldh))]
		}
	}
	return string(b)
}

// junkOrigin produces an Origin value: mostly mutations of an allowed origin, so that the lenient
// request-side parser is probed right next to what it accepts.
func junkOrigin(rng *rand.Rand, s Sem) string {
	var base cOrigin
	if len(s.Pats) > 0 {
		base = originFromPattern(rng, s.Pats[rng.Intn(len(s.Pats))])
	} else {
		base = cOrigin{Scheme: "https", Host: randDomain(rng)}
	}
	b := base.String()
	host := base.Host
	switch rng.Intn(31) {
	case 0:
		return b
	case 1:
		return strings.ToUpper(b)
	case 2:
		return strings.ToUpper(base.Scheme) + b[len(base.Scheme):]
	case 3:
		return base.Scheme + "://user@" + b[len(base.Scheme)+3:]
	case 4:
		return b + "/"
	case 5:
		return b + "/path"
	case 6:
		return b + "?q=1"
	case 7:
		return b + "#frag"
	case 8:
		return " " + b
	case 9:
		return b + " "
	case 10: // bracketed non-IP host (finding F4 territory)
		return serializeOrigin(base.Scheme, "["+strings.Trim(host, "[]")+"]", base.Port)
	case 11: // leading-zero port
		return base.Scheme + "://" + host + ":0" + fmt.Sprint(1+rng.Intn(9999))
	case 12: // 6-digit port
		return base.Scheme + "://" + host + ":" + fmt.Sprint(100000+rng.Intn(899999))
	case 13:
		return base.Scheme + "://" + host + ":" + fmt.Sprint(65536+rng.Intn(10))
	case 14:
		return base.Scheme + "://" + host + ":"
	case 15:
		return base.Scheme + "://" + host + ":0"
	case 16:
		return "null"
	case 17:
		return ""
	case 18:
		return "*"
	case 19: // longer than any limit
		return base.Scheme + "://" + strings.Repeat("a", 300+rng.Intn(2000)) + "." + host
	case 20: // NUL / non-ASCII inside the host
		i := rng.Intn(len(host) + 1)
		return base.Scheme + "://" + host[:i] + []string{"\x00", "é", "\xff", "%41", "\\"}[rng.Intn(5)] + host[i:]
	case 21:
		return base.Scheme + ":/" + host
	case 22:
		return base.Scheme + "//" + host
	case 23:
		return host
	case 24:
		return base.Scheme + "://" + host + "." // trailing dot added
	case 25:
		return base.Scheme + "://." + host
	case 26:
		return base.Scheme + "://" + host + ":" + fmt.Sprint(base.Port) + ":" + fmt.Sprint(base.Port)
	case 27: // scheme prefix / suffix
		if len(base.Scheme) > 1 {
			return base.Scheme[1:] + b[len(base.Scheme):]
		}
		return "x" + b
	case 28:
		return base.Scheme + "://" + strings.Replace(host, ".", "..", 1)
	case 29: // degenerate bracket shapes
		return base.Scheme + "://" + []string{"[]", "[]:" + fmt.Sprint(1+rng.Intn(65535)), "[", "]", "[]:", "[:]", "[]]", "[[]"}[rng.Intn(8)]
	default:
		return base.Scheme + "://" + junkBytes(rng, 1+rng.Intn(40))
	}
}

func junkRequests(rng *rand.Rand, s Sem, n int) []reqSpec {
	var out []reqSpec
	pick := func(xs ...[]string) []string { return xs[rng.Intn(len(xs))] }
	for i := 0; i < n; i++ {
		h := http.Header{}
		m := junkMethods[rng.Intn(len(junkMethods))]
		var o []string
		switch rng.Intn(8) {
		case 0: // none
		case 1:
			o = []string{junkOrigin(rng, s), junkOrigin(rng, s)}
		case 2:
			o = []string{junkOrigin(rng, s), allowedOrigin(rng, s).String()}
		case 3:
			o = []string{allowedOrigin(rng, s).String()}
		default:
			o = []string{junkOrigin(rng, s)}
		}
		setHeader(h, hOrigin, o, rng.Intn(3))
		setHeader(h, hACRM, pick(nil, nil, []string{"GET"}, []string{"PUT"}, []string{"PURGE"}, []string{""}, []string{"GET", "PUT"},
			[]string{"PUT, DELETE"}, []string{junkBytes(rng, 1+rng.Intn(12))}, []string{strings.Repeat("M", 3000)}), rng.Intn(3))
		var ah []string
		switch rng.Intn(8) {
		case 0, 1:
		case 2:
			ah = []string{strings.Join(s.HNames, ",")}
		case 3:
			ah = []string{"x-a", "x-b"}
		case 4:
			ah = []string{junkBytes(rng, rng.Intn(60))}
		case 5:
			ah = []string{"", "authorization", ""}
		case 6:
			ah = []string{strings.Join(s.HNames, " , "), "zz"}
		default:
			ah = []string{"content-type,x-requested-with"}
		}
		setHeader(h, hACRH, ah, rng.Intn(3))
		setHeader(h, hACRPN, pick(nil, nil, []string{"true"}, []string{"false"}, []string{"TRUE"}, []string{"true", "false"}, []string{"false", "true"}, []string{""}), rng.Intn(3))
		out = append(out, reqSpec{Method: m, H: h})
	}
	return out
}

// ---------------------------------------------------------------- fixed configuration kinds

func fixedSems(rng *rand.Rand) []Sem {
	ex := cPattern{Scheme: "https", Host: "example.com"}
	wild := cPattern{Scheme: "https", Wild: true, Host: "example.com", Port: anyPort}
	ip6 := cPattern{Scheme: "http", Host: "[::1]", Port: 9090}
	ip4 := cPattern{Scheme: "http", Host: "127.0.0.1", Port: anyPort}
	base := func() Sem { return Sem{Status: 204, Pna: "none"} }
	var out []Sem
	s := base()
	s.Any = true
	out = append(out, s) // anonymous allow-all, nothing else
	s = base()
	s.Any, s.MAny, s.HStar, s.HAuth, s.Expose, s.MaxAge = true, true, true, true, []string{"*"}, -1
	out = append(out, s) // anonymous allow-all, everything wildcarded
	s = base()
	s.Any, s.Pats, s.Expose, s.Meths = true, []cPattern{ex, {Scheme: "https", Wild: true, Host: "listed.example.org", Port: anyPort}}, []string{"x-exposed"}, []string{"PUT"}
	out = append(out, s) // allow-all in which `*` stands among discrete patterns
	s = base()
	s.Pats, s.Cred, s.Meths, s.HNames, s.HAuth, s.Expose, s.MaxAge, s.Status = []cPattern{ex, wild}, true, []string{"PUT", "DELETE"}, []string{"authorization", "x-a", "x-b"}, true, []string{"x-a", "x-exposed"}, 600, 200
	out = append(out, s) // credentialed, discrete everything
	s = base()
	s.Pats, s.Cred, s.MAny, s.HStar = []cPattern{ex}, true, true, true
	out = append(out, s) // credentialed, wildcard methods and headers
	s = base()
	s.Pats, s.Pna, s.HNames = []cPattern{ex, ip6, ip4}, "cors", []string{"x-a"}
	out = append(out, s) // PNA
	s = base()
	s.Pats, s.Pna, s.Meths = []cPattern{ex}, "nocors", []string{"PUT"}
	out = append(out, s) // PNA no-cors only
	s = base()
	s.Pats, s.HStar = []cPattern{wild, ip4}, true
	out = append(out, s) // anonymous discrete origins, * headers without authorization
	s = base()
	s.Pats = []cPattern{ex}
	out = append(out, s) // minimal single origin
	// one host under two schemes with different port sets, and the same for a wildcard base (parallel per-node tables)
	s = base()
	s.Pats = []cPattern{{Scheme: "https", Host: "two.example.com"}, {Scheme: "http", Host: "two.example.com", Port: 8080},
		{Scheme: "https", Wild: true, Host: "wild.example.com", Port: 8443}, {Scheme: "http", Wild: true, Host: "wild.example.com"},
		{Scheme: "wss", Host: "two.example.com", Port: anyPort}}
	s.Meths, s.HNames, s.Expose = []string{"PUT"}, []string{"x-a"}, []string{"x-exposed"}
	out = append(out, s)
	// LARGE lists: search helpers (binary search, sorted sets, the radix tree) behave differently beyond a handful of elements
	s = base()
	host := "example.org"
	for i := 0; i < 12; i++ {
		host = string(rune('a'+i)) + "." + host
		s.Pats = append(s.Pats, cPattern{Scheme: "https", Host: host}, cPattern{Scheme: "https", Host: fmt.Sprintf("s%02d.example.org", i), Port: 8000 + i})
	}
	s.Pats = append(s.Pats, cPattern{Scheme: "https", Wild: true, Host: "w.example.org", Port: anyPort}, cPattern{Scheme: "http", Host: "a.example.org", Port: 8080})
	for i := 0; i < 23; i++ {
		s.HNames = append(s.HNames, fmt.Sprintf("x-h%02d", i))
		if i < 16 {
			s.Expose = append(s.Expose, fmt.Sprintf("x-e%02d", i))
		}
	}
	s.HNames = append([]string{"authorization"}, s.HNames...)
	s.HAuth = true
	s.Meths = []string{"A_B", "COPY", "DELETE", "LOCK", "M-SEARCH", "MKCOL", "MOVE", "PATCH", "PROPFIND", "PURGE", "PUT", "QUERY", "REPORT", "UNLOCK"}
	s.Cred, s.MaxAge, s.Status = true, 5, 299
	out = append(out, s)
	return out
}

// ---------------------------------------------------------------- the "serve" command

func hdrJSON(h http.Header) map[string]any {
	out := map[string]any{}
	for k, v := range h {
		out[strings.ToLower(k)] = nzs(v)
	}
	return out
}

func linesOf(h http.Header, k string) []string { return nzs(h[k]) }

func tokLines(lines []string, lowerCase bool) [][]string {
	out := [][]string{}
	for _, l := range lines {
		out = append(out, tokens(l, lowerCase))
	}
	return out
}

func rawAC(w *rec) map[string]any {
	out := map[string]any{}
	for k, v := range w.final() {
		if strings.HasPrefix(k, "Access-Control-") || k == "Vary" {
			out[k] = nzs(v)
		}
	}
	return out
}

// innerSpec describes the wrapped handler of a block: the headers it sets, then status and body.
type innerSpec struct {
	Status int // 0: the handler never calls WriteHeader/Write
	Body   string
	Set    http.Header
	// Reenter: the handler is an "admin endpoint" (the documentation invites exposing the middleware's methods): before
	// answering it calls, on the very middleware that wraps it, Config(), SetDebug(current mode) and Reconfigure(Config()) -
	// none of which changes the state
	Reenter bool
}

// errHang is reported when a re-entrant handler never returns.
var hung = false

// Handlers wrapped EARLY: Wrap was called while the middleware was still a passthrough (zero value), or under an earlier
// configuration; all later requests of that middleware go through this one wrapped handler. The per-request spy is reached
// through an indirection.
type earlyWrap struct {
	h     [2]http.Handler // two routes of one application: Wrap was called twice on the same middleware
	inner http.Handler
	n     int
}

var earlyWrapped = map[*cors.Middleware]*earlyWrap{}

func wrapEarly(m *cors.Middleware) {
	ew := &earlyWrap{}
	for i := range ew.h {
		ew.h[i] = nest(m, http.HandlerFunc(func(w http.ResponseWriter, r *http.Request) { ew.inner.ServeHTTP(w, r) }), i)
	}
	earlyWrapped[m] = ew
}

// passMW is a second middleware of the process that was never configured: by the documentation its Wrap is the identity. nest
// applies m to the handler directly (k = 0 mod 3), to what passMW.Wrap made of it, or the other way round - two middlewares
// nested directly, as router-level and route-level policies are; none of it may matter.
var passMW = new(cors.Middleware)
var nestSeq int

func nest(m *cors.Middleware, h http.Handler, k int) http.Handler {
	switch k % 3 {
	case 1:
		return m.Wrap(passMW.Wrap(h))
	case 2:
		return passMW.Wrap(m.Wrap(h))
	}
	return m.Wrap(h)
}

// handlerFor returns the handler a request goes through: one of the two early-wrapped ones (in alternation, so that both have
// served before and after every state change) or a fresh Wrap.
func handlerFor(m *cors.Middleware, spy http.Handler) http.Handler {
	lastMW.Store(m)
	if ew := earlyWrapped[m]; ew != nil {
		ew.inner = spy
		ew.n++
		return ew.h[ew.n%2]
	}
	nestSeq++
	return nest(m, spy, nestSeq)
}

// Layers: what stands between the server and the middleware under test in a larger application.
//   1  a layer that leaves behind exactly what an outer jub0bs/cors middleware that allows the origin leaves behind: the request's
//      own first Origin value - the very slice - as Access-Control-Allow-Origin, and `Vary: Origin`
//   2  a real outer middleware of this library (allow-all, every response header exposed) applied around the one under test
//      (router-level policy around a route-level one); it answers preflights itself, so only other requests get through
// What the middleware under test EMITS is what it adds to / replaces in the header map it was handed (slice identity tells
// "replaced" from "left alone"; where the middleware may have stored the very slice that was already there, both readings are
// recorded and the response is in order if either is).
var outerAll *cors.Middleware

func layered(layer int, next http.Handler, snap *http.Header) http.Handler {
	snapshot := http.HandlerFunc(func(w http.ResponseWriter, r *http.Request) {
		*snap = http.Header{}
		for k, v := range w.Header() {
			(*snap)[k] = v // the slices themselves
		}
		next.ServeHTTP(w, r)
	})
	switch layer {
	case 1:
		return http.HandlerFunc(func(w http.ResponseWriter, r *http.Request) {
			if o := r.Header["Origin"]; len(o) > 0 {
				w.Header()["Access-Control-Allow-Origin"] = o[:1]
				w.Header().Add("Vary", "Origin")
			}
			snapshot.ServeHTTP(w, r)
		})
	case 2:
		if outerAll == nil {
			var err error
			if outerAll, err = cors.NewMiddleware(cors.Config{Origins: []string{"*"}, ResponseHeaders: []string{"*"}}); err != nil {
				fatal("outer middleware: %v", err)
			}
		}
		return outerAll.Wrap(snapshot)
	}
	return next
}

// emittedOver: the part of `live` that the middleware added to or replaced in `pre`. min leaves out, max includes, the entries
// that are the very slices of `pre` (amb of them carry an Access-Control-* name).
func emittedOver(pre, live http.Header) (min, max http.Header, amb int) {
	min, max = http.Header{}, http.Header{}
	for k, v := range live {
		pv, had := pre[k]
		switch {
		case !had:
			min[k], max[k] = v, v
		case len(v) == len(pv) && (len(v) == 0 || &v[0] == &pv[0]):
			max[k] = v
			if strings.HasPrefix(k, "Access-Control-") {
				amb++
			}
		case len(v) > len(pv) && len(pv) > 0 && slices.Equal(v[:len(pv)], pv):
			min[k], max[k] = v[len(pv):], v[len(pv):]
		default:
			min[k], max[k] = v, v
		}
	}
	return
}

var serveSeq int

func emitServe(t *tracer, m *cors.Middleware, dbg bool, rs reqSpec, pre http.Header, inner *innerSpec, extra map[string]any, layer int) (panicked bool) {
	defer func() {
		if p := recover(); p != nil {
			t.emit(map[string]any{"ev": "Panic", "what": fmt.Sprint(p), "m": rs.Method, "req": hdrJSON(rs.H)})
			panicked = true
		}
	}()
	r := rs.build()
	var s served
	w := newRec()
	serveSeq++
	w.noAppend = layer != 0 || serveSeq%2 == 0 // the layered variants, and the buffered view below, read the live header map afterwards
	for k, v := range pre {
		if v != nil && len(v) == 0 {
			w.h[k] = make([]string, 0, cap(v)) // a key with no field line: empty but not nil, possibly with spare capacity
		} else {
			w.h[k] = append([]string(nil), v...)
		}
	}
	var entry, after http.Header
	if inner == nil {
		inner = &innerSpec{Status: 200}
	}
	spy := http.HandlerFunc(func(w2 http.ResponseWriter, r2 *http.Request) {
		s.invoked++
		s.sameReq = r2 == r
		s.sameW = w2 == http.ResponseWriter(w)
		entry = cloneHeader(w2.Header())
		if inner.Reenter {
			c := m.Config()
			m.SetDebug(dbg)
			if c != nil {
				m.Reconfigure(c)
			}
		}
		for k, v := range inner.Set {
			w2.Header()[k] = append([]string(nil), v...)
		}
		after = cloneHeader(w2.Header())
		if inner.Status != 0 {
			w2.WriteHeader(inner.Status)
			if inner.Body != "" {
				w2.Write([]byte(inner.Body))
			}
		}
	})
	if inner.Reenter {
		// under a watchdog: a middleware that keeps its lock while the handler runs never comes back
		done := make(chan any, 1)
		go func() {
			defer func() { done <- recover() }()
			handlerFor(m, spy).ServeHTTP(w, r)
		}()
		select {
		case p := <-done:
			if p != nil {
				panic(p)
			}
		case <-time.After(10 * time.Second):
			hung = true
			t.emit(map[string]any{"ev": "Hang", "by": "handler", "reqhang": true, "m": rs.Method, "req": hdrJSON(rs.H), "dbg": dbg,
				"what": "a handler that calls Config / SetDebug / Reconfigure(Config()) on its own middleware never returned (10 s)"})
			return false
		}
	} else if layer != 0 {
		var snap http.Header
		layered(layer, handlerFor(m, spy), &snap).ServeHTTP(w, r)
		if snap == nil {
			return false // answered by the outer middleware: the one under test was not reached
		}
		pre = snap
		lo, hi, amb := emittedOver(snap, w.h)
		if extra == nil {
			extra = map[string]any{}
		}
		ac2 := [][]int{}
		for _, v := range hi["Access-Control-Allow-Origin"] {
			ac2 = append(ac2, codes(v))
		}
		ac1 := [][]int{}
		for _, v := range lo["Access-Control-Allow-Origin"] {
			ac1 = append(ac1, codes(v))
		}
		extra["layer"], extra["amb"] = layer, amb
		extra["resp"], extra["acaob"] = absRespH(w.status, lo), ac1
		extra["resp2"], extra["acaob2"] = absRespH(w.status, hi), ac2
	} else {
		handlerFor(m, spy).ServeHTTP(w, r)
	}
	s.w = w
	ol := linesOf(rs.H, hOrigin)
	var o1b, o1u, acaob any = []int{}, []int{}, [][]int{}
	if len(ol) > 0 {
		o1b = codes(ol[0])
		o1u = codes(unbracket(ol[0]))
	}
	ac := [][]int{}
	for _, v := range w.final()["Access-Control-Allow-Origin"] {
		ac = append(ac, codes(v))
	}
	acaob = ac
	ev := map[string]any{
		"ev": "Serve", "dbg": dbg, "m": rs.Method,
		"req":    hdrJSON(rs.H),
		"origin": ol, "o1b": o1b, "o1u": o1u, "no": len(ol),
		"acrm": linesOf(rs.H, hACRM), "acrmt": tokLines(linesOf(rs.H, hACRM), false),
		"acrh": linesOf(rs.H, hACRH), "acrht": tokLines(linesOf(rs.H, hACRH), true), "acrhb": codeLines(linesOf(rs.H, hACRH)),
		"acrpn": linesOf(rs.H, hACRPN),
		"resp":  absResp(w), "acaob": acaob, "raw": rawAC(w),
		"invoked": s.invoked, "sameReq": s.sameReq, "sameW": s.sameW, "body": len(w.body),
		"pre": hdrJSON(pre),
	}
	if entry != nil {
		ev["entry"] = hdrJSON(entry)
		ev["after"] = hdrJSON(after)
	} else {
		ev["entry"] = map[string]any{}
		ev["after"] = map[string]any{}
	}
	// what the middleware itself produced over the headers it found: the header map at handler entry, or - when it answered the
	// request itself - the final one; both projected like `resp` (model conformance with pre-set headers, TraceConform)
	mwout := w.final()
	if entry != nil {
		mwout = entry
	}
	ev["mwout"] = absRespH(w.status, mwout)
	ev["preabs"] = absRespH(0, pre)["hdrs"]
	ev["final"] = hdrJSON(w.final())
	ev["varyt"] = tokLines(w.final()["Vary"], true)
	hs := inner.Status
	if hs == 0 {
		hs = 200 // what a server reports when the handler never wrote
	}
	ev["hstatus"] = hs
	ev["hbody"] = len(inner.Body)
	for k, v := range extra {
		ev[k] = v
	}
	t.emit(ev)
	// A BUFFERING writer (http.TimeoutHandler, response-rewriting layers) does not send the header map as it was when the status
	// was committed but as it is when the handler chain has returned. If the two differ, the response such a writer sends is
	// recorded as a response of its own and judged like any other.
	if w.noAppend && w.snapshot != nil && layer == 0 {
		a, _ := json.Marshal(hdrJSON(w.snapshot))
		b, _ := json.Marshal(hdrJSON(w.h))
		if string(a) != string(b) {
			ev2 := map[string]any{}
			for k, v := range ev {
				ev2[k] = v
			}
			ac := [][]int{}
			for _, v := range w.h["Access-Control-Allow-Origin"] {
				ac = append(ac, codes(v))
			}
			raw := map[string]any{}
			for k, v := range w.h {
				if strings.HasPrefix(k, "Access-Control-") || k == "Vary" {
					raw[k] = nzs(v)
				}
			}
			ev2["buffered"], ev2["resp"], ev2["acaob"], ev2["raw"] = true, absRespH(w.status, w.h), ac, raw
			ev2["final"], ev2["varyt"] = hdrJSON(w.h), tokLines(w.h["Vary"], true)
			if entry == nil {
				ev2["mwout"] = absRespH(w.status, w.h)
			}
			t.emit(ev2)
		}
	}
	// A response that the handler did not commit is only read by the server AFTER the middleware has returned: its header map
	// must not change while other requests are served - by this or by any other middleware of the process.
	if inner.Status == 0 && !inner.Reenter {
		beforeJSON, _ := json.Marshal(hdrJSON(w.final())) // rendered NOW: the slices themselves may be what changes
		var before map[string]any
		json.Unmarshal(beforeJSON, &before)
		for _, o := range lateOthers() {
			o.ServeHTTP(newRec(), newReq("GET", http.Header{hOrigin: {"https://late.example"}}))
			o.ServeHTTP(newRec(), newReq("POST", http.Header{hOrigin: {"https://other-late.example"}}))
		}
		if after := hdrJSON(w.final()); func() bool { a, _ := json.Marshal(after); return string(a) != string(beforeJSON) }() {
			t.emit(map[string]any{"ev": "LateChange", "m": rs.Method, "req": hdrJSON(rs.H), "dbg": dbg, "before": before, "after": after,
				"what": "the header map of a response that was not yet committed changed while other middlewares served requests"})
		}
	}
	return false
}

// lateOthers: two other middlewares of the process with configurations unlike most (credentialed single origin with exposed
// headers; allow-all with `*` exposed), each behind a handler that writes nothing.
var lateMWs []http.Handler

func lateOthers() []http.Handler {
	if lateMWs == nil {
		silent := http.HandlerFunc(func(http.ResponseWriter, *http.Request) {})
		a, _ := cors.NewMiddleware(cors.Config{Origins: []string{"https://late.example"}, Credentialed: true, ResponseHeaders: []string{"x-late-a", "x-late-b"}})
		b, _ := cors.NewMiddleware(cors.Config{Origins: []string{"*"}, ResponseHeaders: []string{"*"}})
		lateMWs = []http.Handler{a.Wrap(silent), b.Wrap(silent)}
	}
	return lateMWs
}

// freshResponse serves the request on a middleware created for this one request from the same Config (and debug mode): the
// reference for "the response depends only on the configuration, the debug mode and the request" (C12).
func freshResponse(cfg *cors.Config, dbg bool, rs reqSpec, pre http.Header, inner *innerSpec) (out map[string]any) {
	out = map[string]any{"fresh": map[string]any{"status": -1, "hdrs": map[string]any{}}, "freshfinal": map[string]any{}, "freshinvoked": -1}
	defer func() { recover() }()
	m, err := cors.NewMiddleware(*cloneConfig(cfg))
	if err != nil {
		return
	}
	m.SetDebug(dbg)
	w := newRec()
	for k, v := range pre {
		w.h[k] = append([]string(nil), v...)
	}
	if inner == nil {
		inner = &innerSpec{Status: 200}
	}
	invoked := 0
	m.Wrap(http.HandlerFunc(func(w2 http.ResponseWriter, _ *http.Request) {
		invoked++
		for k, v := range inner.Set {
			w2.Header()[k] = append([]string(nil), v...)
		}
		if inner.Status != 0 {
			w2.WriteHeader(inner.Status)
			if inner.Body != "" {
				w2.Write([]byte(inner.Body))
			}
		}
	})).ServeHTTP(w, reqSpec{Method: rs.Method, H: cloneHeader(rs.H), Shape: rs.Shape}.build())
	return map[string]any{"fresh": absResp(w), "freshfinal": hdrJSON(w.final()), "freshinvoked": invoked}
}

func codeLines(lines []string) [][]int {
	out := [][]int{}
	for _, l := range lines {
		out = append(out, codes(l))
	}
	return out
}

func (s Sem) toJSONb() map[string]any {
	j := s.toJSON()
	j["hNamesb"] = codeLines(s.HNames)
	pats := []map[string]any{}
	for _, p := range s.Pats {
		pats = append(pats, map[string]any{"scheme": codes(p.Scheme), "wild": p.Wild, "host": codes(p.Host), "port": p.Port})
	}
	j["patsb"] = pats
	return j
}

// cmdServe writes Serve traces: for each configuration (fixed kinds + seeded random ones) and both
// debug modes, a request set (junk and/or structured universe) is run through the real middleware.
func cmdServe(args []string) {
	fs := flag.NewFlagSet("serve", flag.ExitOnError)
	trace := fs.String("trace", "", "NDJSON trace to write")
	mode := fs.String("mode", "junk", "junk | universe | both")
	ncfg := fs.Int("configs", 12, "number of configurations (fixed kinds first, then random)")
	nreq := fs.Int("requests", 300, "junk requests per configuration and debug mode")
	big := fs.Bool("big", false, "larger structured universe")
	prop := fs.String("prop", "C03", "property whose blocks are generated (C03 | C10 | C11 | C16)")
	out := fs.String("out", "", "summary JSON")
	shard := fs.Int("shard", 0, "this shard's index")
	nshards := fs.Int("nshards", 1, "number of shards the configurations are dealt to")
	fresh := fs.Bool("fresh", false, "also serve every request on a fresh middleware of the same configuration (C12) and serve each block twice")
	fs.Parse(args)
	rng := newRand()
	t := newTracer(*trace)
	defer t.close()
	sems := fixedSems(rng)
	for len(sems) < *ncfg {
		sems = append(sems, randSem(rng))
	}
	sems = sems[:*ncfg]
	if *prop == "C11" {
		sems = append(sems, Sem{Pass: true, Status: 204, Pna: "none"}, Sem{Pass: true, Status: 204, Pna: "none", MaxAge: 1})
	}
	nameSet := map[string]bool{"authorization": true}
	for _, s := range sems {
		for _, n := range s.HNames {
			nameSet[n] = true
		}
	}
	var allNames []string
	for n := range nameSet {
		allNames = append(allNames, n)
	}
	sort.Strings(allNames)
	t.emit(map[string]any{"ev": "Names", "names": allNames})
	var served, rejected, panics, preflights, processed, reused int
	var samples []any
	t.watchdog(20*time.Second, func(h map[string]any) {
		t.emit(h)
		t.emit(map[string]any{"ev": "EndBlock"})
		writeJSON(*out, map[string]any{"served": served, "configs": processed, "reused": reused, "rejected": rejected, "panics": panics,
			"preflights": preflights, "events": t.n, "samples": samples, "hung": true, "hang": h["what"]})
		t.close()
		os.Exit(0)
	})
	// ONE long-lived middleware is taken from configuration to configuration with Reconfigure (every other configuration gets a
	// new one), having served the previous configurations' requests; the first and last requests of the next block are a
	// sample of the previous block's: what a middleware did under an earlier configuration must not show
	var live *cors.Middleware
	var prevReqs []reqSpec
	nth := 0
	for ci, s := range sems {
		if ci%*nshards != *shard {
			continue
		}
		nth++
		cfg := s.spell(rng)
		var m *cors.Middleware
		if s.Pass {
			// the two ways of obtaining a passthrough middleware: the zero value, and Reconfigure(nil)
			m = new(cors.Middleware)
			if s.MaxAge == 1 {
				m2, err := cors.NewMiddleware(cors.Config{Origins: []string{"https://example.com"}})
				if err != nil {
					fatal("NewMiddleware: %v", err)
				}
				if err := m2.Reconfigure(nil); err != nil {
					fatal("Reconfigure(nil): %v", err)
				}
				m = m2
			}
		} else {
			var err error
			if live != nil && nth%2 == 0 {
				if c := live.Config(); c != nil && nth%4 == 0 {
					// read - edit in place - write back: the value Config() returned, overwritten field by field, handed to
					// Reconfigure (the same pointer the middleware gave out)
					*c = *cloneConfig(cfg)
					m, err = live, live.Reconfigure(c)
				} else {
					if nth%8 == 2 {
						// ... by way of a passthrough phase during which NOTHING is served: whatever numbers, stamps or remembers
						// configurations starts again from the beginning, while handlers wrapped long ago still hold what they
						// remembered of the configuration before
						live.Reconfigure(nil)
					}
					m, err = live, live.Reconfigure(cfg)
				}
				reused++
			} else if nth%3 == 1 {
				// Wrap BEFORE the middleware is configured: zero value, Wrap, then Reconfigure
				m = new(cors.Middleware)
				wrapEarly(m)
				err = m.Reconfigure(cfg)
			} else {
				m, err = cors.NewMiddleware(*cfg)
				if err == nil && nth%3 == 0 {
					// Wrap once, serve for ever: two handlers wrapped right after construction serve every request of this
					// middleware, under this configuration and under those it is reconfigured to later
					wrapEarly(m)
				}
			}
			if err != nil {
				rejected++
				t.emit(map[string]any{"ev": "Rejected", "cfg": cfgJSON(cfg), "err": err.Error()})
				continue
			}
			live = m
		}
		// operations that must leave the abstract state - and hence every per-request property - as it is: in-place writes to a
		// Config() result, a rejected Reconfigure, the documented no-op Reconfigure(Config()), a debug toggle
		// (every other middleware gets them in the MIDDLE of its blocks instead: the requests before have been served by a
		// middleware on which Config() was never called, the identical ones after by one on which it was)
		lateNoise := nth%2 == 1
		if !lateNoise {
			noise(m)
		}
		if !s.Pass {
			bad2 := cors.Config{Origins: []string{"https://other.example"}, ResponseHeaders: []string{"Set-Cookie"}}
			m.Reconfigure(&bad2)
			m.SetDebug(true)
			m.SetDebug(false)
		}
		processed++
		t.emit(map[string]any{"ev": "Config", "id": ci, "sem": s.toJSONb(), "cfg": cfgJSON(cfg)})
		var reqs []reqSpec
		if *mode == "universe" || *mode == "both" {
			reqs = append(reqs, universeRequests(rng, s, *big)...)
		}
		if *mode == "junk" || *mode == "both" {
			reqs = append(reqs, junkRequests(rng, s, *nreq)...)
		}
		reqs = append(reqs, crossProbes(rng, s)...)
		reqs = append(reqs, shapeProbes(rng, s)...)
		reqs = append(reqs, historyProbes(rng, s)...)
		// (a generator of its own: what the probes above draw from `rng` stays as it was)
		reqs = append(reqs, emptyElementProbes(rand.New(rand.NewSource(int64(processed)*104729+int64(ci))), s)...)
		reqs = append(reqs, methodProbes(rand.New(rand.NewSource(int64(processed)*7919+int64(ci))), s)...)
		own := reqs
		carryN := 0
		if len(prevReqs) > 0 && !s.Pass {
			// most recent first (a memo of the previous configuration's last request is hit at once), then the oldest ones
			var carry []reqSpec
			for i := len(prevReqs) - 1; i >= 0 && len(carry) < 24; i-- {
				carry = append(carry, prevReqs[i])
			}
			for i := 0; i < len(prevReqs) && i < 12; i++ {
				carry = append(carry, prevReqs[i])
			}
			reqs = append(append(append([]reqSpec{}, carry...), reqs...), carry...)
			carryN = len(carry)
		}
		if !s.Pass {
			prevReqs = own
		}
		if *fresh {
			// the whole block a second time in another order: the answer must not depend on what was served before
			again := append([]reqSpec{}, reqs...)
			rng.Shuffle(len(again), func(i, j int) { again[i], again[j] = again[j], again[i] })
			reqs = append(reqs, again...)
		}
		type variant struct {
			pre   http.Header
			inner *innerSpec
			layer int
			third bool // the variant takes a quarter of the block's requests
		}
		variants := []variant{{nil, nil, 0, false}}
		presetVary := http.Header{"Vary": {"Accept-Encoding"}, "X-Pre": {"1"}}
		presetAll := http.Header{"Vary": {"Accept-Encoding", "Cookie"}, "X-Pre": {"1"}, "Access-Control-Allow-Origin": {"https://preset.example"},
			"Access-Control-Max-Age": {"9"}, "Access-Control-Allow-Methods": {"PRESET"}, "Content-Type": {"text/plain"}}
		busy := &innerSpec{Status: 418, Body: "inner body", Set: http.Header{"Vary": {"Accept"}, "X-Inner": {"1"},
			"Access-Control-Allow-Origin": {"https://handler.example"}, "Access-Control-Expose-Headers": {"X-H"}}}
		silent := &innerSpec{Status: 0}
		switch *prop {
		case "C10":
			// Vary values set earlier in the chain, incl. ones that already end in / contain "Origin"
			variants = append(variants, variant{presetVary, nil, 0, false},
				variant{http.Header{"Vary": {"Accept-Encoding, Origin"}}, nil, 0, false},
				variant{http.Header{"Vary": {"X-Forwarded-Origin"}}, nil, 0, false})
		case "C11":
			variants = append(variants, variant{presetAll, nil, 0, false}, variant{nil, busy, 0, false}, variant{presetVary, silent, 0, false}, variant{presetAll, busy, 0, false},
				variant{nil, &innerSpec{Status: 200, Reenter: true}, 0, false})
		case "C03":
			if !s.Pass {
				variants = append(variants, variant{nil, nil, 1, true}, variant{nil, nil, 2, true})
			}
			// a writer whose header map already has the KEYS the middleware works with, without any field line: nil, and empty
			// with spare capacity (what `h[k] = h[k][:0]` leaves behind) - no header is there, and none of this may matter
			touched := []string{"Vary", "Access-Control-Allow-Origin", "Access-Control-Allow-Credentials", "Access-Control-Expose-Headers",
				"Access-Control-Allow-Methods", "Access-Control-Allow-Headers", "Access-Control-Max-Age", "Access-Control-Allow-Private-Network"}
			keysNil, keysEmpty := http.Header{}, http.Header{}
			for _, k := range touched {
				keysNil[k] = nil
				keysEmpty[k] = make([]string, 0, 2)
			}
			variants = append(variants, variant{keysNil, nil, 0, true}, variant{keysEmpty, nil, 0, true})
		}
		// (the order of the two debug modes alternates: the last requests of one configuration and the first of the next - with or
		// without a passthrough phase in between - are served in the SAME mode every other time, in different modes otherwise)
		dbgOrder := []bool{false, true}
		if nth%2 == 0 && *prop != "C09" {
			// (C09's monitor compares the debug-on block position by position with the debug-off block recorded BEFORE it)
			dbgOrder = []bool{true, false}
		}
		for _, dbg := range dbgOrder {
			if !dbg && !s.Pass && nth%3 == 2 {
				// "debug off" reached the OTHER documented way: turned on, then through passthrough (which switches it off) and
				// back to the same configuration (which keeps it as it is) - no SetDebug(false) is ever called
				m.SetDebug(true)
				m.Reconfigure(nil)
				if err := m.Reconfigure(cfg); err != nil {
					t.emit(map[string]any{"ev": "Rejected", "cfg": cfgJSON(cfg), "err": "accepted before, rejected after a passthrough phase: " + err.Error()})
				}
			} else {
				m.SetDebug(dbg)
			}
			if !lateNoise {
				noise(m)
			}
			for vi, vr := range variants {
				t.emit(map[string]any{"ev": "Block", "dbg": dbg, "variant": vi})
				for ri, rs := range reqs {
					if vr.third && ri%4 != (nth+vi)%4 {
						continue // the layered variants take a third of the block
					}
					// the scribbling handler runs AFTER the carry-over probes (nothing may touch what the previous configuration
					// left behind before they look at it) and again in the middle of the block, with other words
					if ri == carryN {
						scribbleServe(m, reqs, dbg, vi)
					}
					if ri == (len(reqs)+carryN)/2 {
						scribbleServe(m, reqs, dbg, 3+vi)
						if lateNoise {
							noise(m)
						}
					}
					var extra map[string]any
					inn := vr.inner
					if inn == nil && ri%7 == 3 {
						inn = silent // a handler that commits nothing: the server reads the headers after the middleware returned
					}
					if *fresh && !s.Pass {
						extra = freshResponse(cfg, dbg, rs, vr.pre, inn)
					}
					if emitServe(t, m, dbg, rs, vr.pre, inn, extra, vr.layer) {
						panics++
					}
					if hung {
						// the stuck goroutine holds the middleware's lock: nothing more can be served
						t.emit(map[string]any{"ev": "EndBlock"})
						writeJSON(*out, map[string]any{"served": served, "configs": processed, "reused": reused, "rejected": rejected, "panics": panics,
							"preflights": preflights, "events": t.n, "samples": samples, "hung": true})
						t.close()
						os.Exit(0)
					}
					served++
					if rs.Method == "OPTIONS" && len(rs.H[hOrigin]) > 0 && len(rs.H[hACRM]) > 0 {
						preflights++
					}
				}
				t.emit(map[string]any{"ev": "EndBlock"})
			}
		}
		if len(samples) < 2 {
			var rq []any
			for i := 0; i < 4 && i < len(reqs); i++ {
				rq = append(rq, map[string]any{"method": reqs[len(reqs)-1-i].Method, "headers": reqs[len(reqs)-1-i].H})
			}
			samples = append(samples, map[string]any{"config": cfgJSON(cfg), "requests": rq})
		}
	}
	writeJSON(*out, map[string]any{"served": served, "configs": processed, "reused": reused, "rejected": rejected, "panics": panics,
		"preflights": preflights, "events": t.n, "samples": samples})
}

func sortedCopy(x []string) []string {
	y := append([]string{}, x...)
	sort.Strings(y)
	return y
}

// unbracket removes the brackets around the host of scheme://[host]... when host contains no colon
// (i.e. is not an IPv6 literal). Purely syntactic; used only to CLASSIFY known finding F4.
func unbracket(o string) string {
	i := strings.Index(o, "://[")
	if i < 0 {
		return o
	}
	rest := o[i+4:]
	j := strings.IndexByte(rest, ']')
	if j < 0 || strings.ContainsRune(rest[:j], ':') {
		return o
	}
	return o[:i+3] + rest[:j] + rest[j+1:]
}
