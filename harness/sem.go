package main

import (
	"math/rand"
	"net/http"
	"sort"
	"strings"

	"github.com/jub0bs/cors"
)

// Sem is the semantic configuration of Cors.tla: what an accepted Config means. The driver
// CHOOSES a Sem and then spells it as a cors.Config in one of many equivalent ways; the Sem is
// what gets logged, so that TLC can evaluate the meaning oracles (Permits, Allowed, ...) on it.
type Sem struct {
	Pass   bool       `json:"pass"`
	Any    bool       `json:"any"`
	Pats   []cPattern `json:"-"`
	Cred   bool       `json:"cred"`
	MAny   bool       `json:"mAny"`
	Meths  []string   `json:"meths"`  // non-safelisted methods, normalised as Fetch does
	HStar  bool       `json:"hStar"`
	HAuth  bool       `json:"hAuth"`
	HNames []string   `json:"hNames"` // byte-lower-case discrete names (incl. authorization when listed), empty when HStar
	MaxAge int        `json:"maxAge"`
	Expose []string   `json:"expose"` // lower-case names (safelisted ones removed) or ["*"]
	Status int        `json:"status"`
	Pna    string     `json:"pna"` // none | cors | nocors
}

func (s Sem) patsJSON() []map[string]any {
	out := make([]map[string]any, 0, len(s.Pats))
	for _, p := range s.Pats {
		out = append(out, map[string]any{"scheme": p.Scheme, "wild": p.Wild, "host": codes(p.Host), "port": p.Port})
	}
	return out
}

func (s Sem) exposeRendered() string {
	e := append([]string(nil), s.Expose...)
	sort.Strings(e)
	return strings.Join(e, ",")
}

func (s Sem) toJSON() map[string]any {
	nz := func(x []string) []string {
		if x == nil {
			return []string{}
		}
		return x
	}
	return map[string]any{
		"pass": s.Pass, "any": s.Any, "pats": s.patsJSON(), "cred": s.Cred, "mAny": s.MAny, "meths": nz(s.Meths),
		"hStar": s.HStar, "hAuth": s.HAuth, "hNames": nz(s.HNames), "maxAge": s.MaxAge,
		"expose": s.exposeRendered(), "exposeSet": nz(s.Expose), "status": s.Status, "pna": s.Pna,
	}
}

var starSpell, starAuthSpell int

var safelistedMethods = []string{"GET", "HEAD", "POST"}
var normalisable = map[string]bool{"DELETE": true, "GET": true, "HEAD": true, "OPTIONS": true, "POST": true, "PUT": true}
var safelistedRespHdrs = []string{"cache-control", "content-language", "content-length", "content-type", "expires", "last-modified", "pragma"}

func randCase(rng *rand.Rand, s string) string {
	b := []byte(s)
	for i := range b {
		if b[i] >= 'a' && b[i] <= 'z' && rng.Intn(2) == 0 {
			b[i] -= 32
		} else if b[i] >= 'A' && b[i] <= 'Z' && rng.Intn(2) == 0 {
			b[i] += 32
		}
	}
	return string(b)
}

func isInsecure(p cPattern) bool {
	if p.Scheme == "https" {
		return false
	}
	// `localhost.` (trailing dot) is not byte-equal to localhost: the library deems it insecure (stricter than the documented
	// rule needs; asking for tolerance when it may be needed is always permitted)
	if p.Host == "localhost" && !p.Wild {
		return false
	}
	if strings.HasPrefix(p.Host, "127.") || p.Host == "[::1]" {
		return false
	}
	return true
}

// spell renders the Sem as a cors.Config, choosing among equivalent spellings with rng:
// order, duplicates, header-name case, normalisable method spellings, safelisted extras,
// `*` mixed with discrete values, 204 as 0 or 204.
var originStarSpell, exposeStarSpell int

func (s Sem) spell(rng *rand.Rand) *cors.Config {
	if s.Pass {
		return nil
	}
	var c cors.Config
	for _, p := range s.Pats {
		c.Origins = append(c.Origins, p.String())
	}
	if s.Any && len(s.Pats) > 0 {
		// `*` among discrete patterns (which it makes redundant): its position alternates deterministically - patterns before the
		// first `*`, between two of them and after the last one; `*` first; `*` last
		ps := c.Origins
		switch originStarSpell % 3 {
		case 0:
			c.Origins = append(append(append([]string{ps[0], "*"}, ps[1:len(ps)-min(1, len(ps)-1)]...), "*"), ps[len(ps)-1])
		case 1:
			c.Origins = append([]string{"*"}, ps...)
		case 2:
			c.Origins = append(append([]string{}, ps...), "*")
		}
		originStarSpell++
	} else {
		if s.Any {
			c.Origins = append(c.Origins, "*")
		}
		if len(c.Origins) > 1 && rng.Intn(3) == 0 {
			c.Origins = append(c.Origins, c.Origins[rng.Intn(len(c.Origins))])
		}
		rng.Shuffle(len(c.Origins), func(i, j int) { c.Origins[i], c.Origins[j] = c.Origins[j], c.Origins[i] })
	}
	c.Credentialed = s.Cred

	for _, m := range s.Meths {
		if normalisable[m] {
			c.Methods = append(c.Methods, randCase(rng, m))
		} else {
			c.Methods = append(c.Methods, m)
		}
	}
	if s.MAny {
		c.Methods = append(c.Methods, "*")
		if rng.Intn(2) == 0 {
			c.Methods = append(c.Methods, "PURGE")
		}
	}
	if rng.Intn(3) == 0 {
		c.Methods = append(c.Methods, randCase(rng, safelistedMethods[rng.Intn(3)]))
	}
	if len(c.Methods) > 0 && rng.Intn(4) == 0 {
		c.Methods = append(c.Methods, c.Methods[rng.Intn(len(c.Methods))])
	}
	rng.Shuffle(len(c.Methods), func(i, j int) { c.Methods[i], c.Methods[j] = c.Methods[j], c.Methods[i] })

	spelled := map[string]string{} // how each request-header name was spelled: a response-header name may be spelled identically
	for _, n := range s.HNames {
		sp := randCase(rng, n)
		spelled[n] = sp
		c.RequestHeaders = append(c.RequestHeaders, sp)
	}
	if s.HStar {
		c.RequestHeaders = append(c.RequestHeaders, "*")
		if s.HAuth {
			c.RequestHeaders = append(c.RequestHeaders, randCase(rng, "authorization"))
		}
		if rng.Intn(4) != 0 { // discrete names next to `*` (before and after it, through the shuffle below): covered by it
			c.RequestHeaders = append(c.RequestHeaders, randCase(rng, "x-listed-next-to-star"))
			if rng.Intn(2) == 0 {
				c.RequestHeaders = append(c.RequestHeaders, randCase(rng, "x-api-key"), randCase(rng, "x-tenant"))
			}
		}
	}
	if len(c.RequestHeaders) > 0 && rng.Intn(4) == 0 {
		c.RequestHeaders = append(c.RequestHeaders, randCase(rng, c.RequestHeaders[rng.Intn(len(c.RequestHeaders))]))
	}
	rng.Shuffle(len(c.RequestHeaders), func(i, j int) {
		c.RequestHeaders[i], c.RequestHeaders[j] = c.RequestHeaders[j], c.RequestHeaders[i]
	})
	if s.HStar {
		// the position of `*` alternates deterministically (with the seed's parity: the shards of a check cover both): LAST -
		// every discrete name, `authorization` included, stands before it - and FIRST
		k := &starSpell // one alternation per class: the anonymous `*` + authorization configurations have their own
		if s.HAuth && !s.Cred {
			k = &starAuthSpell
		}
		*k++
		var rest []string
		for _, n := range c.RequestHeaders {
			if n != "*" {
				rest = append(rest, n)
			}
		}
		if (*k+int(seedFromEnv()))%2 == 0 {
			c.RequestHeaders = append(rest, "*")
		} else {
			c.RequestHeaders = append([]string{"*"}, rest...)
		}
		if rng.Intn(4) != 0 {
			// discrete names on BOTH sides of `*`: the wildcard covers them wherever they stand
			c.RequestHeaders = append(append([]string{randCase(rng, "x-before-star")}, c.RequestHeaders...), randCase(rng, "x-after-star"))
		}
	}

	c.MaxAgeInSeconds = s.MaxAge
	for _, n := range s.Expose {
		if n == "*" {
			// discrete names next to `*` (which covers them), among them the one name that has a special meaning next to `*` in
			// the OTHER header list; which of them are there alternates deterministically, their order is shuffled below
			c.ResponseHeaders = append(c.ResponseHeaders, "*")
			exposeStarSpell++
			if exposeStarSpell%2 == 0 {
				c.ResponseHeaders = append(c.ResponseHeaders, "X-Next-To-Star")
			}
			if exposeStarSpell%3 != 0 {
				c.ResponseHeaders = append(c.ResponseHeaders, randCase(rng, "authorization"))
			}
		} else if sp, ok := spelled[n]; ok && rng.Intn(4) != 0 {
			c.ResponseHeaders = append(c.ResponseHeaders, sp) // byte-identical to the entry of RequestHeaders
		} else {
			c.ResponseHeaders = append(c.ResponseHeaders, randCase(rng, n))
		}
	}
	if rng.Intn(3) == 0 {
		c.ResponseHeaders = append(c.ResponseHeaders, randCase(rng, safelistedRespHdrs[rng.Intn(len(safelistedRespHdrs))]))
	}
	rng.Shuffle(len(c.ResponseHeaders), func(i, j int) {
		c.ResponseHeaders[i], c.ResponseHeaders[j] = c.ResponseHeaders[j], c.ResponseHeaders[i]
	})
	if s.Status != 204 || rng.Intn(2) == 0 {
		c.PreflightSuccessStatus = s.Status
	}
	c.PrivateNetworkAccess = s.Pna == "cors"
	c.PrivateNetworkAccessInNoCORSModeOnly = s.Pna == "nocors"
	needInsecure := false
	for _, p := range s.Pats {
		if isInsecure(p) && (s.Cred || s.Pna != "none") {
			needInsecure = true
		}
	}
	c.DangerouslyTolerateInsecureOrigins = needInsecure || rng.Intn(4) == 0
	c.DangerouslyTolerateSubdomainsOfPublicSuffixes = true
	return &c
}

// ---------------------------------------------------------------- response abstraction (trusted, no decisions)

var abbrev = map[string]string{
	"Access-Control-Allow-Origin":          "ACAO",
	"Access-Control-Allow-Credentials":     "ACAC",
	"Access-Control-Allow-Methods":         "ACAM",
	"Access-Control-Allow-Headers":         "ACAH",
	"Access-Control-Allow-Private-Network": "ACAPN",
	"Access-Control-Max-Age":               "ACMA",
	"Access-Control-Expose-Headers":        "ACEH",
	"Vary":                                 "Vary",
}

func tokens(line string, lowerCase bool) []string {
	out := []string{}
	for _, t := range strings.Split(line, ",") {
		t = strings.Trim(t, " \t")
		if t == "" {
			continue
		}
		if lowerCase {
			t = strings.ToLower(t)
		}
		out = append(out, t)
	}
	return out
}

// absResp projects a recorded response: status, and the CORS-relevant headers under the
// abbreviations used by the specification. ACAM/ACAH/ACEH become lists (field lines) of token
// lists (ACAH/ACEH tokens byte-lower-cased: header names are case-insensitive); everything else
// is the list of field lines as given. Any other Access-Control-* header is reported under its
// own name so that "no Access-Control-* header at all" can be judged.
func absResp(w *rec) map[string]any { return absRespH(w.status, w.final()) }

func absRespH(status int, hdrs http.Header) map[string]any {
	h := map[string]any{}
	for k, v := range hdrs {
		if len(v) == 0 {
			continue // a key without field lines is not a header of the response
		}
		ab, ok := abbrev[k]
		if !ok {
			if strings.HasPrefix(k, "Access-Control-") {
				h[k] = append([]string{}, v...)
			}
			continue
		}
		switch ab {
		case "ACAM":
			ls := [][]string{}
			for _, line := range v {
				ls = append(ls, tokens(line, false))
			}
			h[ab] = ls
		case "ACAH", "ACEH":
			ls := [][]string{}
			for _, line := range v {
				ls = append(ls, tokens(line, true))
			}
			h[ab] = ls
		default:
			h[ab] = append([]string{}, v...)
		}
	}
	st := status
	if st == 0 {
		st = 200
	}
	return map[string]any{"status": st, "hdrs": h}
}

// serve runs one request through the middleware wrapped around a spy handler.
type served struct {
	w       *rec
	invoked int
	sameReq bool
	sameW   bool
}

func serve(m *cors.Middleware, r *http.Request, inner http.Handler) served {
	var s served
	w := newRec()
	spy := http.HandlerFunc(func(w2 http.ResponseWriter, r2 *http.Request) {
		s.invoked++
		s.sameReq = r2 == r
		s.sameW = w2 == http.ResponseWriter(w)
		if inner != nil {
			inner.ServeHTTP(w2, r2)
		} else {
			commitAndEdit(w2, w.h, 200) // (the recorder's own map: no scheduler gate)
		}
	})
	handlerFor(m, spy).ServeHTTP(w, r) // the handler wrapped when the middleware was created, if any (serve.go)
	s.w = w
	return s
}
