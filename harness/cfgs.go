package main

import (
	"math"
	"encoding/json"
	"flag"
	"fmt"
	"math/rand"
	"strings"

	"github.com/jub0bs/cors"
	"github.com/jub0bs/cors/cfgerrors"
)

// ---------------------------------------------------------------- the atom table (spec/atoms.json)

type atom struct {
	ID        string   `json:"id"`
	Field     string   `json:"field"`
	Cls       string   `json:"cls"`
	Spellings []string `json:"spellings"`
}

type atomTable struct {
	Atoms   []atom `json:"atoms"`
	byField map[string][]atom
}

func loadAtoms(path string) *atomTable {
	var t atomTable
	readJSON(path, &t)
	t.byField = map[string][]atom{}
	for _, a := range t.Atoms {
		t.byField[a.Field] = append(t.byField[a.Field], a)
	}
	return &t
}

type entry struct {
	A string `json:"a"`
	V string `json:"v"`
}

// absConfig is a Config at atom level: what TLC judges.
type absConfig struct {
	Origins     []entry `json:"origins"`
	Methods     []entry `json:"methods"`
	ReqH        []entry `json:"reqh"`
	RespH       []entry `json:"resph"`
	Cred        bool    `json:"cred"`
	Pna         bool    `json:"pna"`
	NoCors      bool    `json:"nocors"`
	TolInsecure bool    `json:"tolInsecure"`
	TolPSL      bool    `json:"tolPSL"`
	MaxAge      int     `json:"maxAge"`
	Status      int     `json:"status"`
}

func vals(es []entry) []string {
	if es == nil {
		return nil
	}
	out := make([]string, len(es))
	for i, e := range es {
		out[i] = e.V
	}
	return out
}

func nze(es []entry) []entry {
	if es == nil {
		return []entry{}
	}
	return es
}

func (a absConfig) concrete() cors.Config {
	return cors.Config{
		Origins: vals(a.Origins), Credentialed: a.Cred, Methods: vals(a.Methods), RequestHeaders: vals(a.ReqH),
		MaxAgeInSeconds: a.MaxAge, ResponseHeaders: vals(a.RespH),
		ExtraConfig: cors.ExtraConfig{PreflightSuccessStatus: a.Status, PrivateNetworkAccess: a.Pna,
			PrivateNetworkAccessInNoCORSModeOnly: a.NoCors, DangerouslyTolerateInsecureOrigins: a.TolInsecure,
			DangerouslyTolerateSubdomainsOfPublicSuffixes: a.TolPSL},
	}
}

func (a absConfig) toJSON() map[string]any {
	return map[string]any{"origins": nze(a.Origins), "methods": nze(a.Methods), "reqh": nze(a.ReqH), "resph": nze(a.RespH),
		"cred": a.Cred, "pna": a.Pna, "nocors": a.NoCors, "tolInsecure": a.TolInsecure, "tolPSL": a.TolPSL,
		"maxAge": capInt(a.MaxAge), "status": capInt(a.Status)}
}

func isGood(a atom) bool { return a.Cls != "bad" && a.Cls != "malformed" }

func (t *atomTable) pickList(rng *rand.Rand, field string, pBad float64, maxLen int) []entry {
	n := rng.Intn(maxLen + 1)
	if field == "origins" && n == 0 && rng.Intn(10) != 0 {
		n = 1
	}
	var out []entry
	atoms := t.byField[field]
	for i := 0; i < n; i++ {
		var a atom
		for tries := 0; ; tries++ {
			a = atoms[rng.Intn(len(atoms))]
			wantBad := rng.Float64() < pBad
			if isGood(a) != wantBad || tries > 20 {
				break
			}
		}
		if a.Cls == "star" && rng.Intn(3) != 0 { // keep `*` less frequent
			a = atoms[rng.Intn(len(atoms))]
			if !isGood(a) && pBad == 0 {
				continue
			}
		}
		out = append(out, entry{a.ID, a.Spellings[rng.Intn(len(a.Spellings))]})
	}
	if len(out) > 0 && rng.Intn(5) == 0 { // multiplicity
		out = append(out, out[rng.Intn(len(out))])
	}
	return out
}

// boundary integers, including values that only differ from an acceptable one above bit 8, 16, 31 or 32 (a check done after a
// narrowing conversion accepts them) and the extremes of int
var maxAges = []int{-2, -1, 0, 1, 5, 600, 86400, 86401, -100, 1<<31 - 1, 1 << 31, 1<<32 + 5, 1 << 32, 1<<32 - 1, 1<<32 + 86400, -(1 << 32), -(1 << 32) - 1,
	1<<16 + 86400, 1<<17 + 5, 256 + 86400, math.MaxInt64, math.MinInt64, 1<<62 + 30}
var statuses = []int{0, 199, 200, 204, 299, 300, -1, 1000, 250, 456, 460, 555, 1<<16 + 204, 1<<16 + 250, 1<<31 + 204, 1<<32 + 204, 1<<32 + 250, 1<<32 + 299,
	-(1 << 32) + 204, 1<<33 + 200, 1 << 32, math.MaxInt64, math.MinInt64, 1<<40 + 204, 1<<48 + 250}

// capInt maps integers beyond TLC's 32-bit range to a representative of the same class (far out of every documented bound).
func capInt(v int) int {
	const lim = 1<<31 - 1
	if v > lim {
		return lim
	}
	if v < -lim {
		return -lim
	}
	return v
}

func (t *atomTable) randAbsConfig(rng *rand.Rand) absConfig {
	// three regimes: clean (no defective atom), a single field defective, anything goes
	pBad := []float64{0, 0, 0.25, 0.5}[rng.Intn(4)]
	var c absConfig
	c.Origins = t.pickList(rng, "origins", pBad, 3)
	c.Methods = t.pickList(rng, "methods", pBad, 3)
	c.ReqH = t.pickList(rng, "reqh", pBad, 3)
	c.RespH = t.pickList(rng, "resph", pBad, 3)
	c.Cred = rng.Intn(3) == 0
	c.Pna = rng.Intn(4) == 0
	c.NoCors = rng.Intn(5) == 0
	c.TolInsecure = rng.Intn(2) == 0
	c.TolPSL = rng.Intn(2) == 0
	if pBad == 0 || rng.Intn(3) != 0 {
		c.MaxAge = []int{-1, 0, 1, 86400, 30}[rng.Intn(5)]
		c.Status = []int{0, 200, 204, 299}[rng.Intn(4)]
	} else {
		c.MaxAge = maxAges[rng.Intn(len(maxAges))]
		c.Status = statuses[rng.Intn(len(statuses))]
	}
	return c
}

// ---------------------------------------------------------------- observing validation errors

func leavesByOwnWalk(err error) int {
	if err == nil {
		return 0
	}
	if j, ok := err.(interface{ Unwrap() []error }); ok {
		n := 0
		for _, e := range j.Unwrap() {
			n += leavesByOwnWalk(e)
		}
		return n
	}
	return 1
}

func describeErr(e error) map[string]any {
	d := map[string]any{"t": "other", "v": "", "r": "", "x": "", "ptr": false, "pfx": false}
	if e == nil {
		return d
	}
	d["pfx"] = strings.HasPrefix(e.Error(), "cors: ")
	switch x := e.(type) {
	case *cfgerrors.UnacceptableOriginPatternError:
		d["t"], d["ptr"] = "UnacceptableOriginPatternError", x != nil
		if x != nil {
			d["v"], d["r"] = x.Value, x.Reason
		}
	case *cfgerrors.UnacceptableMethodError:
		d["t"], d["ptr"] = "UnacceptableMethodError", x != nil
		if x != nil {
			d["v"], d["r"] = x.Value, x.Reason
		}
	case *cfgerrors.UnacceptableHeaderNameError:
		d["ptr"] = x != nil
		if x != nil {
			d["t"] = "UnacceptableHeaderNameError/" + x.Type
			d["v"], d["r"] = x.Value, x.Reason
		}
	case *cfgerrors.MaxAgeOutOfBoundsError:
		d["t"], d["ptr"] = "MaxAgeOutOfBoundsError", x != nil
		if x != nil {
			d["v"] = fmt.Sprint(x.Value)
			d["x"] = fmt.Sprintf("%d/%d/%d", x.Default, x.Max, x.Disable)
		}
	case *cfgerrors.PreflightSuccessStatusOutOfBoundsError:
		d["t"], d["ptr"] = "PreflightSuccessStatusOutOfBoundsError", x != nil
		if x != nil {
			d["v"] = fmt.Sprint(x.Value)
			d["x"] = fmt.Sprintf("%d/%d/%d", x.Default, x.Min, x.Max)
		}
	case *cfgerrors.IncompatibleOriginPatternError:
		d["t"], d["ptr"] = "IncompatibleOriginPatternError", x != nil
		if x != nil {
			d["v"], d["r"] = x.Value, x.Reason
		}
	case *cfgerrors.IncompatiblePrivateNetworkAccessModesError:
		d["t"], d["ptr"] = "IncompatiblePrivateNetworkAccessModesError", x != nil
	case *cfgerrors.IncompatibleWildcardResponseHeaderNameError:
		d["t"], d["ptr"] = "IncompatibleWildcardResponseHeaderNameError", x != nil
	}
	return d
}

func observeErr(err error) (errs []map[string]any, nyield int, panicked bool) {
	errs = []map[string]any{}
	if err == nil {
		return
	}
	defer func() {
		if p := recover(); p != nil {
			panicked = true
		}
	}()
	seq := cfgerrors.All(err)
	for range seq { // a first, broken-off loop over the same iterator value must not matter
		break
	}
	for e := range seq {
		nyield++
		errs = append(errs, describeErr(e))
	}
	return
}

func emitValidate(t *tracer, via string, ac absConfig, err error, nilmw bool) {
	errs, ny, pan := observeErr(err)
	// integers beyond TLC's range: the error must report the value AS SUPPLIED; if it does, the event carries the capped
	// representative (as the configuration does), otherwise the (wrong) reported value stays
	for _, d := range errs {
		switch d["t"] {
		case "MaxAgeOutOfBoundsError":
			if d["v"] == fmt.Sprint(ac.MaxAge) {
				d["v"] = fmt.Sprint(capInt(ac.MaxAge))
			}
		case "PreflightSuccessStatusOutOfBoundsError":
			if d["v"] == fmt.Sprint(ac.Status) {
				d["v"] = fmt.Sprint(capInt(ac.Status))
			}
		}
	}
	msg := ""
	if err != nil {
		msg = err.Error()
		if len(msg) > 300 {
			msg = msg[:300]
		}
	}
	nlines := 0
	if err != nil {
		nlines = strings.Count(err.Error(), "\n") + 1 // the violations REPORTED: one line of the message each
	}
	t.emit(map[string]any{"ev": "Validate", "via": via, "cfg": ac.toJSON(), "ok": err == nil, "nilmw": nilmw,
		"errs": errs, "nyield": ny, "nleaves": leavesByOwnWalk(err), "nlines": nlines, "panicked": pan, "msg": msg})
}

// validateAll calls NewMiddleware and Reconfigure (on a passthrough and on a configured
// middleware) with the configuration and records each outcome. Panics are C17's business.
func validateAll(t *tracer, ac absConfig) (accepted bool) {
	defer func() {
		if p := recover(); p != nil {
			t.emit(map[string]any{"ev": "Panic", "what": fmt.Sprint(p), "cfg": ac.toJSON()})
		}
	}()
	c := ac.concrete()
	m, err := cors.NewMiddleware(c)
	emitValidate(t, "new", ac, err, m == nil)
	accepted = err == nil
	c2 := ac.concrete()
	z := new(cors.Middleware)
	emitValidate(t, "reconf0", ac, z.Reconfigure(&c2), false)
	c3 := ac.concrete()
	a, _ := cors.NewMiddleware(cors.Config{Origins: []string{"https://configured.example"}})
	emitValidate(t, "reconfA", ac, a.Reconfigure(&c3), false)
	// ... and on middlewares that currently hold a NEIGHBOUR of the configuration (one group of fields changed towards
	// validity): the verdict on a configuration must not depend on what the middleware was accepted with before
	nb := neighbours(ac)
	seq++
	done := 0
	for k := range nb {
		p := nb[(k+seq)%len(nb)]
		pm, perr := cors.NewMiddleware(p.cfg.concrete())
		if perr != nil {
			continue
		}
		c4 := ac.concrete()
		emitValidate(t, "reconfN:"+p.what, ac, pm.Reconfigure(&c4), false)
		if done++; done == 3 {
			break
		}
	}
	return
}

var seq int

type neighbour struct {
	what string
	cfg  absConfig
}

func neighbours(ac absConfig) []neighbour {
	var out []neighbour
	add := func(what string, f func(*absConfig)) {
		n := ac
		f(&n)
		out = append(out, neighbour{what, n})
	}
	add("cred", func(n *absConfig) { n.Cred = !n.Cred })
	add("pna", func(n *absConfig) { n.Pna, n.NoCors = false, false })
	add("tolInsecure", func(n *absConfig) { n.TolInsecure = !n.TolInsecure })
	add("tolPSL", func(n *absConfig) { n.TolPSL = !n.TolPSL })
	add("switches", func(n *absConfig) { n.Cred, n.Pna, n.NoCors, n.TolInsecure, n.TolPSL = false, false, false, true, true })
	add("methods", func(n *absConfig) { n.Methods = nil })
	add("reqh", func(n *absConfig) { n.ReqH = nil })
	add("resph", func(n *absConfig) { n.RespH = nil })
	add("scalars", func(n *absConfig) { n.MaxAge, n.Status = 0, 0 })
	add("lists", func(n *absConfig) { n.Methods, n.ReqH, n.RespH, n.MaxAge, n.Status = nil, nil, nil, 0, 0 })
	return out
}

func cmdCfgs(args []string) {
	fs := flag.NewFlagSet("cfgs", flag.ExitOnError)
	trace := fs.String("trace", "", "NDJSON trace to write")
	atomsFile := fs.String("atoms", "", "spec/atoms.json")
	n := fs.Int("n", 3000, "number of configurations")
	cases := fs.String("cases", "", "configurations enumerated by TLC (ConfigMC.tla), at atom level")
	stride := fs.Int("stride", 1, "replay every stride-th TLC case (offset by seed)")
	out := fs.String("out", "", "summary JSON")
	fs.Parse(args)
	rng := newRand()
	tab := loadAtoms(*atomsFile)
	t := newTracer(*trace)
	defer t.close()
	accepted := 0
	var samples []any
	// every atom spelling on its own, in every position of a 1-3 element list, first
	k := 0
	for _, a := range tab.Atoms {
		for _, sp := range a.Spellings {
			for pos := 0; pos < 3; pos++ {
				ac := absConfig{Origins: []entry{{"o_https", "https://example.com"}}}
				list := []entry{}
				good := tab.byField[a.Field][1]
				if a.Field != "origins" {
					for _, g := range tab.byField[a.Field] {
						if g.Cls == "valid" {
							good = g
						}
					}
				}
				for i := 0; i < pos; i++ {
					list = append(list, entry{good.ID, good.Spellings[(i+k)%len(good.Spellings)]})
				}
				list = append(list, entry{a.ID, sp})
				switch a.Field {
				case "origins":
					ac.Origins = list
					ac.TolInsecure, ac.TolPSL = k%2 == 0, k%3 == 0
					ac.Cred = k%5 == 0
				case "methods":
					ac.Methods = list
				case "reqh":
					ac.ReqH = list
				case "resph":
					ac.RespH = list
				}
				k++
				if validateAll(t, ac) {
					accepted++
				}
			}
		}
	}
	for ; k < *n; k++ {
		ac := tab.randAbsConfig(rng)
		if validateAll(t, ac) {
			accepted++
		}
		if len(samples) < 3 && len(ac.Origins) > 1 {
			samples = append(samples, ac.toJSON())
		}
	}
	replayed := 0
	if *cases != "" {
		byID := map[string]atom{}
		for _, a := range tab.Atoms {
			byID[a.ID] = a
		}
		mk := func(ids []string) []entry {
			var out []entry
			for _, id := range ids {
				a := byID[id]
				out = append(out, entry{id, a.Spellings[rng.Intn(len(a.Spellings))]})
			}
			return out
		}
		idx := 0
		off := int(seedFromEnv()) % *stride
		// origin lists that mix `*` with another atom take the short-cut paths of the validator (`*` subsumes the rest, the
		// tree is discarded): they are always replayed (1.5 k cases); the remaining cases are sampled by stride
		starMix := func(ids []string) bool {
			if len(ids) < 2 {
				return false
			}
			star := false
			for _, id := range ids {
				star = star || strings.HasSuffix(id, "_star")
			}
			return star
		}
		readCases(*cases, func(line []byte) {
			idx++
			var cc struct {
				O, M, H, E []string
				S          []bool
				A, T       int
			}
			if err := json.Unmarshal(line, &cc); err != nil {
				fatal("bad case: %v", err)
			}
			wildMix := len(cc.O) == 2 && (strings.HasPrefix(cc.O[0], "o_wild") || strings.HasPrefix(cc.O[0], "o_psl")) &&
				(strings.HasPrefix(cc.O[1], "o_wild") || strings.HasPrefix(cc.O[1], "o_psl")) // one wildcard may subsume the other
			if (idx+off)%*stride != 0 && !starMix(cc.O) && !wildMix {
				return
			}
			ac := absConfig{Origins: mk(cc.O), Methods: mk(cc.M), ReqH: mk(cc.H), RespH: mk(cc.E),
				Cred: cc.S[0], Pna: cc.S[1], NoCors: cc.S[2], TolInsecure: cc.S[3], TolPSL: cc.S[4], MaxAge: cc.A, Status: cc.T}
			if validateAll(t, ac) {
				accepted++
			}
			replayed++
		})
	}
	writeJSON(*out, map[string]any{"configs": k + replayed, "replayed_tlc_cases": replayed, "accepted_by_new": accepted, "events": t.n, "samples": samples})
}
