package main

import (
	"encoding/json"
	"errors"
	"flag"
	"fmt"

	"github.com/jub0bs/cors/cfgerrors"
)

type jtree struct {
	K  string  `json:"k"`
	ID int     `json:"id"`
	C  []jtree `json:"c"`
}

type leafErr struct{ id int }

func (l *leafErr) Error() string { return fmt.Sprintf("leaf %d", l.id) }

// Leaves come in every kind an application may put into a join: a plain error, an error that WRAPS another one
// (Unwrap() error - a leaf of the join tree all the same: only joins, i.e. Unwrap() []error, are inner nodes), one whose
// Unwrap returns nil, a zero-size error value (all such values may share one address) and a non-comparable one.
type wrapLeaf struct {
	id    int
	inner error
}

func (l *wrapLeaf) Error() string { return fmt.Sprintf("wrapping leaf %d", l.id) }
func (l *wrapLeaf) Unwrap() error { return l.inner }

type sliceLeaf struct{ ids []int } // not comparable: a map keyed by error values panics on it

func (l sliceLeaf) Error() string { return fmt.Sprintf("slice leaf %v", l.ids) }

func (t jtree) build() error {
	if t.K == "L" {
		switch t.ID % 5 {
		case 1:
			return &wrapLeaf{t.ID, &leafErr{100000 + t.ID}} // yielding the inner error instead is a wrong answer
		case 2:
			return &wrapLeaf{t.ID, nil}
		case 3:
			return &wrapLeaf{t.ID, errors.Join(&leafErr{200000 + t.ID}, &leafErr{300000 + t.ID})}
		case 4:
			return sliceLeaf{[]int{t.ID}}
		}
		return &leafErr{t.ID}
	}
	kids := make([]error, len(t.C))
	for i, c := range t.C {
		kids[i] = c.build()
	}
	return errors.Join(kids...)
}

func (t jtree) nleaves() int {
	if t.K == "L" {
		return 1
	}
	n := 0
	for _, c := range t.C {
		n += c.nleaves()
	}
	return n
}

func idOf(e error) int {
	if l, ok := e.(*wrapLeaf); ok {
		return l.id
	}
	if l, ok := e.(sliceLeaf); ok {
		return l.ids[0]
	}
	if l, ok := e.(*leafErr); ok {
		return l.id
	}
	return -1 // a non-leaf was yielded
}

func cmdC19(args []string) {
	fs := flag.NewFlagSet("c19", flag.ExitOnError)
	cases := fs.String("cases", "", "trees written by TLC")
	trace := fs.String("trace", "", "NDJSON trace")
	out := fs.String("out", "", "summary JSON")
	fs.Parse(args)
	t := newTracer(*trace)
	defer t.close()
	seen := map[string]bool{}
	trees, runs, nested := 0, 0, 0
	var samples []any
	readCases(*cases, func(line []byte) {
		if seen[string(line)] {
			return
		}
		seen[string(line)] = true
		var jt jtree
		if err := json.Unmarshal(line, &jt); err != nil {
			fatal("bad tree: %v", err)
		}
		trees++
		var raw any
		json.Unmarshal(line, &raw)
		n := jt.nleaves()
		for k := 1; k <= n+1; k++ {
			err := jt.build()
			// (a) call the iterator directly with a counting consumer
			direct, late, pan := []int{}, 0, false
			func() {
				defer func() {
					if p := recover(); p != nil {
						pan = true
					}
				}()
				stopped := false
				cfgerrors.All(err)(func(e error) bool {
					if stopped {
						late++
						return false
					}
					direct = append(direct, idOf(e))
					if len(direct) >= k {
						stopped = true
						return false
					}
					return true
				})
			}()
			// (b) range over it and break
			ranged, rpan := []int{}, false
			func() {
				defer func() {
					if p := recover(); p != nil {
						rpan = true
					}
				}()
				for e := range cfgerrors.All(err) {
					ranged = append(ranged, idOf(e))
					if len(ranged) >= k {
						break
					}
				}
			}()
			// (c) ONE iterator value ranged over twice: first with a break after k items, then to the end
			again, apan := []int{}, false
			func() {
				defer func() {
					if p := recover(); p != nil {
						apan = true
					}
				}()
				seq := cfgerrors.All(err)
				i := 0
				for range seq {
					if i++; i >= k {
						break
					}
				}
				for e := range seq {
					again = append(again, idOf(e))
				}
			}()
			t.emit(map[string]any{"ev": "Iter", "tree": raw, "k": k, "out": direct, "late": late, "panicked": pan, "rout": ranged, "rpanicked": rpan,
				"again": again, "apanicked": apan})
			runs++
		}
		if len(jt.C) > 0 && len(jt.C[0].C) > 0 {
			nested++
		}
		if len(samples) < 3 && trees%37 == 5 {
			samples = append(samples, raw)
		}
	})
	writeJSON(*out, map[string]any{"trees": trees, "runs": runs, "nested": nested, "events": t.n, "samples": samples})
}
