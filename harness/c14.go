package main

import (
	"fmt"
	"encoding/json"
	"flag"
	"math/rand"
	"net/http"
	"sort"
	"strings"
	"sync"
	"sync/atomic"

	"github.com/jub0bs/cors"
)

// acrhApproved asks the real middleware: configuration with exactly this discrete header set,
// debug off, allowed origin, safelisted ACRM; approved <=> ok status (and ACAH reflecting the lines).
var acrhBuilds int

func acrhHandler(names []string) http.Handler {
	acrhBuilds++
	// the REST of the configuration varies too (period 7, the ways of arriving at it have period 6): none of it has a say in
	// which request-header lists are approved
	cfg := cors.Config{Origins: []string{"https://example.com"}, RequestHeaders: names}
	switch acrhBuilds % 7 {
	case 1:
		cfg.Methods = []string{"*"}
	case 2:
		cfg.Methods, cfg.Credentialed = []string{"PUT", "DELETE"}, true
	case 3:
		cfg.Methods, cfg.MaxAgeInSeconds = []string{"PATCH", "*"}, 30
	case 4:
		cfg.ResponseHeaders, cfg.PreflightSuccessStatus = []string{"X-Exposed"}, 200
	case 5:
		cfg.Credentialed, cfg.Methods, cfg.MaxAgeInSeconds = true, []string{"*"}, -1
	case 6:
		cfg.Origins = []string{"https://*.example.com:*", "https://example.com", "http://localhost:8080"}
		cfg.ResponseHeaders = []string{"*"}
	}
	m := buildVia(cfg, acrhBuilds)
	if m == nil {
		fatal("configuration with RequestHeaders %q rejected", names)
	}
	noise(m)
	return handlerFor(m, okHandler)
}

func acrhApproved(h http.Handler, lines []string) (approved bool, reflected bool) {
	w := newRec()
	h.ServeHTTP(w, newReq("OPTIONS", http.Header{hOrigin: {"https://example.com"}, hACRM: {"GET"}, hACRH: append([]string(nil), lines...)}))
	approved = w.status >= 200 && w.status < 300
	got := w.final()["Access-Control-Allow-Headers"]
	reflected = len(got) == len(lines)
	for i := range got {
		if reflected && got[i] != lines[i] {
			reflected = false
		}
	}
	return
}

// ---------------------------------------------------------------- G: replay of AcrhMC's universe

func cmdC14Gen(args []string) {
	fs := flag.NewFlagSet("c14gen", flag.ExitOnError)
	cases := fs.String("cases", "", "cases written by TLC")
	out := fs.String("out", "", "summary JSON")
	fs.Parse(args)
	type cs struct {
		S  int     `json:"s"`
		L  [][]int `json:"l"`
		OK bool    `json:"ok"`
	}
	var all []cs
	readCases(*cases, func(line []byte) {
		var c cs
		if err := json.Unmarshal(line, &c); err != nil {
			fatal("bad case: %v", err)
		}
		all = append(all, c)
	})
	seed := seedFromEnv()
	// concretisation: a -> x, b -> y (distinct lower-case letters with x < y, so that the byte order is kept)
	rng := rand.New(rand.NewSource(seed))
	x := byte('a' + rng.Intn(12))
	y := x + 1 + byte(rng.Intn(12))
	mapb := func(c int) byte {
		switch c {
		case 97:
			return x
		case 98:
			return y
		}
		return byte(c)
	}
	handlers := make([]http.Handler, 16)
	for s := 1; s < 16; s++ {
		var names []string
		for i, n := range []string{"a", "b", "ab", "ba"} {
			if s&(1<<i) != 0 {
				b := []byte(n)
				for k := range b {
					b[k] = mapb(int(b[k]))
				}
				names = append(names, string(b))
			}
		}
		handlers[s] = acrhHandler(names)
	}
	var evals, approvedN, nontrivial atomic.Int64
	var mu sync.Mutex
	var mism []map[string]any
	var samples []any
	var wg sync.WaitGroup
	nw := 16
	for wk := 0; wk < nw; wk++ {
		wg.Add(1)
		go func(wk int) {
			defer wg.Done()
			for i := wk; i < len(all); i += nw {
				c := all[i]
				lines := make([]string, len(c.L))
				total := 0
				for k, l := range c.L {
					b := make([]byte, len(l))
					for j, v := range l {
						b[j] = mapb(v)
					}
					lines[k] = string(b)
					total += len(b)
				}
				got, refl := acrhApproved(handlers[c.S], lines)
				evals.Add(1)
				if got {
					approvedN.Add(1)
				}
				if total >= 3 {
					nontrivial.Add(1)
				}
				if got != c.OK || (got && !refl) {
					mu.Lock()
					if len(mism) < 40 {
						mism = append(mism, map[string]any{"set": c.S, "lines": lines, "expected": c.OK, "got": got, "reflected": refl})
					}
					mu.Unlock()
				}
				if i%40009 == 5 {
					mu.Lock()
					if len(samples) < 4 {
						samples = append(samples, map[string]any{"set_bits": c.S, "lines": lines, "approved": c.OK})
					}
					mu.Unlock()
				}
			}
		}(wk)
	}
	wg.Wait()
	writeJSON(*out, map[string]any{"cases": len(all), "evaluations": evals.Load(), "approved": approvedN.Load(), "nontrivial": nontrivial.Load(),
		"mismatches": mism, "samples": samples})
}

// ---------------------------------------------------------------- T: randomised driver around the real cut-offs

var acrhNamePool = []string{"a", "b", "ab", "authorization", "content-type", "x-a", "x-ab", "x-abc", "x-b", "x-requested-with",
	"x-long-header-name-aaaaaaaaaaaaaaaaaaaaaaaaaaaaaaaaaaaaaaaa", "zz", "accept", "x-a-b",
	// lengths around the sizes of machine words, small buffers and counters (63..65, 128, 256)
	"x_trace_id", "x^flag", "x`tick", "x|bar~t", "x!#$%&'*+.", // every token punctuation (case mapping must leave them alone)
	"l63-" + strings.Repeat("d", 59), "l64-" + strings.Repeat("e", 60), "l65-" + strings.Repeat("f", 61),
	"l128-" + strings.Repeat("h", 123), "l256-" + strings.Repeat("k", 251)}

func ows(rng *rand.Rand, n int) string {
	b := make([]byte, n)
	for i := range b {
		b[i] = " \t"[rng.Intn(2)]
	}
	return string(b)
}

func randAcrhLines(rng *rand.Rand, set []string) []string {
	sorted := append([]string{}, set...)
	sort.Strings(sorted)
	longest := ""
	for _, n := range set {
		if len(n) > len(longest) {
			longest = n
		}
	}
	nlines := 1 + rng.Intn(4)
	// mostly start from a browser-shaped list for a subset, then perturb
	var elems []string
	for _, n := range sorted {
		if rng.Intn(2) == 0 {
			elems = append(elems, n)
		}
	}
	mut := rng.Intn(10)
	switch mut {
	case 0: // unsorted
		rng.Shuffle(len(elems), func(i, j int) { elems[i], elems[j] = elems[j], elems[i] })
	case 1: // repeated
		if len(elems) > 0 {
			k := rng.Intn(len(elems))
			elems = append(elems[:k+1], elems[k:]...)
		}
	case 2: // a name that is a prefix / an extension of an allowed name, or not allowed at all
		if len(elems) > 0 {
			k := rng.Intn(len(elems))
			switch rng.Intn(4) {
			case 0:
				elems[k] = elems[k] + "x"
			case 1:
				elems[k] = elems[k][:len(elems[k])-1]
			case 2:
				elems[k] = "x" + elems[k]
			default:
				elems[k] = strings.ToUpper(elems[k])
			}
		}
	case 3: // at and around the cut-off: longest name + padding
		elems = append(elems, longest+strings.Repeat("a", rng.Intn(3)))
	}
	// padding 0-3 OWS bytes per side (mostly 0-1), empties 0-20
	for i := range elems {
		l, r := 0, 0
		if rng.Intn(3) == 0 {
			l = rng.Intn(2)
			if rng.Intn(6) == 0 {
				l = 2 + rng.Intn(2)
			}
		}
		if rng.Intn(3) == 0 {
			r = rng.Intn(2)
			if rng.Intn(6) == 0 {
				r = 2 + rng.Intn(2)
			}
		}
		elems[i] = ows(rng, l) + elems[i] + ows(rng, r)
	}
	nEmpty := 0
	switch rng.Intn(6) {
	case 0:
		nEmpty = 14 + rng.Intn(7) // around the budget of 16
	case 1:
		nEmpty = rng.Intn(4)
	}
	for k := 0; k < nEmpty; k++ {
		pos := rng.Intn(len(elems) + 1)
		e := ""
		if rng.Intn(4) == 0 {
			e = ows(rng, 1+rng.Intn(3))
		}
		elems = append(elems[:pos], append([]string{e}, elems[pos:]...)...)
	}
	// distribute over lines
	lines := make([]string, nlines)
	per := (len(elems) + nlines - 1) / nlines
	if per == 0 {
		per = 1
	}
	for i := 0; i < nlines; i++ {
		lo, hi := i*per, (i+1)*per
		if lo > len(elems) {
			lo = len(elems)
		}
		if hi > len(elems) {
			hi = len(elems)
		}
		lines[i] = strings.Join(elems[lo:hi], ",")
		if rng.Intn(8) == 0 {
			lines[i] += "," // a trailing comma: one more empty element
		}
	}
	if rng.Intn(25) == 0 { // arbitrary bytes
		lines[rng.Intn(nlines)] = junkBytes(rng, rng.Intn(40))
	}
	return lines
}

func cmdC14Rand(args []string) {
	fs := flag.NewFlagSet("c14rand", flag.ExitOnError)
	trace := fs.String("trace", "", "NDJSON trace")
	n := fs.Int("n", 20000, "number of inputs")
	out := fs.String("out", "", "summary JSON")
	fs.Parse(args)
	rng := newRand()
	t := newTracer(*trace)
	defer t.close()
	inputs, sets, approved := 0, 0, 0
	var samples []any
	for inputs < *n {
		k := 1 + rng.Intn(5)
		picked := map[string]bool{}
		big := sets%4 == 3 // every fourth set is LARGE (9-20 names): search helpers behave differently on long lists
		if big {
			k = 9 + rng.Intn(12)
			for len(picked) < k-3 {
				picked[fmt.Sprintf("x-h%02d", rng.Intn(40))] = true
			}
		}
		for len(picked) < k {
			picked[acrhNamePool[rng.Intn(len(acrhNamePool))]] = true
		}
		var set []string
		for s := range picked {
			set = append(set, s)
		}
		sort.Strings(set)
		spelled := make([]string, len(set))
		for i, s := range set {
			spelled[i] = randCase(rng, s)
		}
		// the configured LIST is not a set: some names twice (in another letter case), any order
		for _, s := range set {
			if rng.Intn(3) == 0 {
				spelled = append(spelled, randCase(rng, s))
			}
		}
		rng.Shuffle(len(spelled), func(i, j int) { spelled[i], spelled[j] = spelled[j], spelled[i] })
		h := acrhHandler(spelled)
		sets++
		setb := make([][]int, len(set))
		for i, s := range set {
			setb[i] = codes(s)
		}
		t.emit(map[string]any{"ev": "Set", "names": setb, "spelled": spelled})
		var systematic [][]string
		if big {
			// every ordered pair of allowed names (also equal ones), on one line and on two lines; a sample of triples
			for i := range set {
				for j := range set {
					systematic = append(systematic, []string{set[i] + "," + set[j]}, []string{set[i], set[j]})
				}
			}
			for q := 0; q < 200; q++ {
				a, b, c := set[rng.Intn(len(set))], set[rng.Intn(len(set))], set[rng.Intn(len(set))]
				systematic = append(systematic, [][]string{{a + "," + b + "," + c}, {a, b + "," + c}, {a + "," + b, c}}[rng.Intn(3)])
			}
		}
		for j := 0; j < 150+len(systematic) && (inputs < *n || j < len(systematic)); j++ {
			lines := randAcrhLines(rng, set)
			if j < len(systematic) {
				lines = systematic[j]
			}
			ok, refl := acrhApproved(h, lines)
			lb := make([][]int, len(lines))
			for i, l := range lines {
				lb[i] = codes(l)
			}
			t.emit(map[string]any{"ev": "Acrh", "lines": lb, "ok": ok, "reflected": refl, "raw": lines})
			inputs++
			if ok {
				approved++
			}
			if len(samples) < 4 && j == 3 {
				samples = append(samples, map[string]any{"set": set, "lines": lines, "approved": ok})
			}
		}
	}
	writeJSON(*out, map[string]any{"inputs": inputs, "sets": sets, "approved": approved, "events": t.n, "samples": samples})
}
