package main

import (
	"github.com/jub0bs/cors/cfgerrors"
	"errors"
	"flag"
	"fmt"
	"math/rand"
	"net/http"
	"strings"
	"testing"

	"github.com/jub0bs/cors"
)

// ---------------------------------------------------------------- C17: extreme inputs (sizes only are logged)

func bigValue(rng *rand.Rand, kind string, n int) []string {
	switch kind {
	case "bytes": // one value of n bytes
		return []string{junkBytes(rng, n)}
	case "letters":
		return []string{strings.Repeat("a", n)}
	case "elements": // one line with n comma-separated elements
		return []string{strings.Repeat("x-a,", n)}
	case "empties":
		return []string{strings.Repeat(",", n)}
	case "lines": // n field lines
		l := make([]string, n)
		for i := range l {
			l[i] = "x-a"
		}
		return l
	case "emptylines":
		return make([]string, n)
	case "ows":
		return []string{strings.Repeat(" ", n) + "x-a"}
	}
	return nil
}

func cmdC17X(args []string) {
	fs := flag.NewFlagSet("c17x", flag.ExitOnError)
	trace := fs.String("trace", "", "NDJSON trace")
	out := fs.String("out", "", "summary JSON")
	maxSize := fs.Int("max", 1<<20, "largest field size / element count")
	fs.Parse(args)
	rng := newRand()
	t := newTracer(*trace)
	defer t.close()
	sems := fixedSems(rng)
	for i := 0; i < 6; i++ {
		sems = append(sems, randSem(rng))
	}
	sizes := []int{0, 1, 2, 17, 326, 327, 328, 1000, 100000, *maxSize}
	kinds := []string{"bytes", "letters", "elements", "empties", "lines", "emptylines", "ows"}
	fields := []string{hOrigin, hACRM, hACRH, hACRPN}
	calls, extreme := 0, 0
	for ci, s := range sems {
		cfg := s.spell(rng)
		var m *cors.Middleware
		var err error
		func() {
			defer func() {
				if p := recover(); p != nil {
					t.emit(map[string]any{"ev": "Panic", "what": fmt.Sprint(p), "where": "NewMiddleware", "config": fmt.Sprintf("%.300q", fmt.Sprintf("%+v", *cfg))})
					err = fmt.Errorf("panic")
				}
			}()
			m, err = cors.NewMiddleware(*cfg)
		}()
		if err != nil {
			continue
		}
		a := allowedOrigin(rng, s).String()
		h := m.Wrap(okHandler)
		for _, dbg := range []bool{false, true} {
			m.SetDebug(dbg)
			for _, f := range fields {
				for _, k := range kinds {
					for _, n := range sizes {
						if (k == "lines" || k == "emptylines" || k == "elements" || k == "empties") && n > 100000 {
							n = 100000
						}
						for _, method := range []string{"OPTIONS", "GET"} {
							hd := http.Header{hOrigin: {a}, hACRM: {"PUT"}}
							hd[f] = bigValue(rng, k, n)
							func() {
								defer func() {
									if p := recover(); p != nil {
										t.emit(map[string]any{"ev": "Panic", "what": fmt.Sprint(p), "config": ci, "debug": dbg, "field": f, "kind": k, "size": n, "method": method})
									}
								}()
								h.ServeHTTP(newRec(), newReq(method, hd))
							}()
							calls++
							if n == 0 || n >= 1000 {
								extreme++
							}
						}
					}
				}
			}
		}
	}
	// Config values made of arbitrary strings and integers
	cfgCalls := 0
	for i := 0; i < 3000; i++ {
		mk := func() []string {
			n := rng.Intn(4)
			var l []string
			for j := 0; j < n; j++ {
				switch rng.Intn(8) {
				case 6, 7:
					// a VALID token around the sizes of small buffers, lower-case except for a run of upper-case letters at the
					// start, in the middle or at the very end (case mapping / lookup helpers with fixed-size scratch space)
					ln := []int{15, 16, 17, 31, 32, 33, 63, 64, 65, 66, 73, 127, 128, 129, 255, 256, 257, 1000}[rng.Intn(18)]
					b := []byte(strings.Repeat("a", ln))
					if rng.Intn(2) == 0 {
						b[0], b[1] = 'x', '-'
					}
					run := 1 + rng.Intn(3)
					at := []int{0, ln / 2, ln - run, ln - 1, rng.Intn(ln)}[rng.Intn(5)]
					for q := at; q < at+run && q < ln; q++ {
						b[q] = 'A' + byte(rng.Intn(26))
					}
					if rng.Intn(3) == 0 { // ... or the other way round
						for q := range b {
							if b[q] >= 'a' && b[q] <= 'z' {
								b[q] -= 32
							} else if b[q] >= 'A' && b[q] <= 'Z' {
								b[q] += 32
							}
						}
					}
					l = append(l, string(b))
				case 0:
					l = append(l, junkBytes(rng, rng.Intn(50)))
				case 1:
					l = append(l, strings.Repeat("a", []int{63, 64, 253, 254, 5000}[rng.Intn(5)]))
				case 2:
					l = append(l, "https://"+junkBytes(rng, rng.Intn(30)))
				case 3:
					l = append(l, "*")
				case 4:
					l = append(l, []string{"https://*.", "*.", "https://[", "http://[]", "https://a:", "a://b:*", "https://*.a", "x://[::1]:", ":", "://", "https://a:99999999999999999999"}[rng.Intn(11)])
				default:
					l = append(l, "https://example.com")
				}
			}
			return l
		}
		c := cors.Config{Origins: mk(), Methods: mk(), RequestHeaders: mk(), ResponseHeaders: mk(), Credentialed: rng.Intn(2) == 0,
			MaxAgeInSeconds: []int{0, -1, -1 << 62, 1 << 62, 86400}[rng.Intn(5)]}
		c.PreflightSuccessStatus = []int{0, 200, -1 << 62, 1 << 62, 299, 456}[rng.Intn(6)]
		func() {
			defer func() {
				if p := recover(); p != nil {
					t.emit(map[string]any{"ev": "Panic", "what": fmt.Sprint(p), "where": "NewMiddleware/Reconfigure/Config/All", "config": fmt.Sprintf("%.300q", fmt.Sprintf("%+v", c))})
				}
			}()
			m, err := cors.NewMiddleware(c)
			if err != nil {
				walkAll(err)
			} else {
				m.Config()
				m.Reconfigure(m.Config())
			}
			z := new(cors.Middleware)
			if err := z.Reconfigure(&c); err != nil {
				walkAll(err)
			}
			z.Config()
		}()
		cfgCalls++
	}
	t.emit(map[string]any{"ev": "Done", "calls": calls, "cfgcalls": cfgCalls})
	writeJSON(*out, map[string]any{"request_calls": calls, "extreme_requests": extreme, "config_calls": cfgCalls, "events": t.n})
}

var presetACAH, presetACAM, presetVary = []string{"x-requested-with"}, []string{"PATCH"}, []string{"Accept-Encoding"}
var presetACAO, presetACEH = []string{"https://preset.example"}, []string{"x-preset"}

// walkAll consumes cfgerrors.All(err) in every way a caller can: to the end, and broken off after k = 1, 2, ... items
// (a range loop and a direct call of the iterator), plus Error() and Unwrap of every yielded error. Panics propagate.
func walkAll(err error) {
	n := 0
	for e := range cfgerrors.All(err) {
		_ = e.Error()
		errors.Unwrap(e)
		n++
	}
	_ = err.Error()
	for k := 1; k <= n; k++ {
		i := 0
		for range cfgerrors.All(err) {
			if i++; i >= k {
				break
			}
		}
		i = 0
		seq := cfgerrors.All(err)
		seq(func(error) bool { i++; return i < k })
		for range seq {
		}
	}
}

// ---------------------------------------------------------------- C18: allocations per request

type nullRW struct{ h http.Header }

func (n *nullRW) Header() http.Header         { return n.h }
func (n *nullRW) WriteHeader(int)             {}
func (n *nullRW) Write(b []byte) (int, error) { return len(b), nil }

var nopHandler = http.HandlerFunc(func(http.ResponseWriter, *http.Request) {})

func cmdC18(args []string) {
	fs := flag.NewFlagSet("c18", flag.ExitOnError)
	trace := fs.String("trace", "", "NDJSON trace")
	out := fs.String("out", "", "summary JSON")
	big := fs.Bool("big", false, "ladder up to 1 MiB / 100 000 elements")
	fs.Parse(args)
	rng := newRand()
	t := newTracer(*trace)
	defer t.close()
	ex := cPattern{Scheme: "https", Host: "example.com"}
	type kindCfg struct {
		name string
		s    Sem
		many []string // a long sorted list of allowed request-header names, for the success-path ladders
	}
	kinds := []kindCfg{
		{"allow-all", Sem{Any: true, Status: 204, Pna: "none", MAny: true}, nil},
		{"discrete", Sem{Pats: []cPattern{ex}, Status: 204, Pna: "none", Meths: []string{"PUT"}, HNames: []string{"x-a", "x-b"}, MaxAge: 30}, nil},
		{"star-headers-anonymous", Sem{Pats: []cPattern{ex}, Status: 204, Pna: "none", MAny: true, HStar: true, HAuth: true}, nil},
		{"star-headers-credentialed", Sem{Pats: []cPattern{ex}, Cred: true, Status: 204, Pna: "none", MAny: true, HStar: true, Expose: []string{"x-e"}}, nil},
		{"discrete-credentialed-pna", Sem{Pats: []cPattern{ex}, Cred: true, Status: 200, Pna: "cors", Meths: []string{"PUT"}, HNames: []string{"authorization", "x-a"}, HAuth: true}, nil},
	}
	// a configuration with MANY allowed names: the success path of the discrete check with a growing number of allowed
	// elements, padded in every tolerated way
	var many []string
	for i := 0; i < 128; i++ {
		many = append(many, fmt.Sprintf("x-h%03d", i))
	}
	kinds = append(kinds, kindCfg{"discrete-128-names", Sem{Pats: []cPattern{ex}, Status: 204, Pna: "none", HNames: many}, many})
	// ... and one with LONG names (beyond the 32- and 64-byte scratch buffers the compiler or a helper may use)
	var long []string
	for i := 0; i < 64; i++ {
		long = append(long, fmt.Sprintf("x-tenant-identifier-of-the-upstream-service-%04d", i))
	}
	kinds = append(kinds, kindCfg{"discrete-64-long-names", Sem{Pats: []cPattern{ex}, Status: 204, Pna: "none", HNames: long}, long})
	// configurations whose origin tree is DEEP (a chain of nested subdomains, each allowed: one tree level per label) or
	// matches arbitrarily deep subdomains: the success path of the Origin lookup with an allowed origin of growing depth
	var chain []cPattern
	for i := 0; i <= 120; i++ {
		chain = append(chain, cPattern{Scheme: "https", Host: strings.Repeat("a.", i) + "example.com"})
	}
	kinds = append(kinds, kindCfg{"nested-chain-121-origins", Sem{Pats: chain, Status: 204, Pna: "none", Meths: []string{"PUT"}, HNames: []string{"x-a"}}, nil})
	kinds = append(kinds, kindCfg{"nested-chain-credentialed", Sem{Pats: chain, Cred: true, Status: 204, Pna: "none", MAny: true, HStar: true}, nil})
	kinds = append(kinds, kindCfg{"wildcard-subdomains", Sem{Pats: []cPattern{{Scheme: "https", Wild: true, Host: "example.com"}, ex}, Status: 204, Pna: "none", Meths: []string{"PUT"}, HNames: []string{"x-a"}}, nil})
	deepKind := func(name string) bool { return strings.HasPrefix(name, "nested-chain") || name == "wildcard-subdomains" }
	ladder := []int{1, 10, 100, 1000, 10000}
	if *big {
		ladder = append(ladder, 100000, 1<<20)
	}
	shapes := []string{"bytes", "elements", "empties", "lines", "emptylines", "ows", "allowed-then-junk",
		"allowed", "allowed-sp", "allowed-tab", "allowed-both", "allowed-lines", "allowed-empties", "allowed-upper", "allowed-title", "allowed-pairs", "allowed-deep"}
	// the deep allowed origin again with labels of other KINDS (work that depends on what a label looks like: A-labels of
	// internationalized names, digits, inner hyphens, the longest label)
	deepLabels := map[string]string{"allowed-deep": "a", "allowed-deep-xn": "xn--9ca", "allowed-deep-xn2": "xn--bcher-kva", "allowed-deep-digit": "0",
		"allowed-deep-hyphen": "a-b", "allowed-deep-63": strings.Repeat("abcdefg", 9)}
	for _, sh := range []string{"allowed-deep-xn", "allowed-deep-xn2", "allowed-deep-digit", "allowed-deep-hyphen", "allowed-deep-63"} {
		shapes = append(shapes, sh)
	}
	// elements of EVERY length 1..40 (work that depends on an element's exact length - a canonical header name has 13, 14, ...
	// bytes), lower-case, not canonical, distinct
	for L := 1; L <= 40; L++ {
		shapes = append(shapes, fmt.Sprintf("elen-%02d", L))
	}
	measures := 0
	for _, kc := range kinds {
		m, err := cors.NewMiddleware(*kc.s.spell(rng))
		if err != nil {
			fatal("C18 config %s: %v", kc.name, err)
		}
		noise(m)
		h := m.Wrap(nopHandler)
		for _, dbg := range []bool{false, true} {
			m.SetDebug(dbg)
			for _, field := range []string{hOrigin, hACRM, hACRH} {
				for _, shape := range shapes {
					if deepLabels[shape] != "" {
						if field != hOrigin || !deepKind(kc.name) {
							continue
						}
					} else if deepKind(kc.name) && field != hOrigin {
						continue // the other fields are covered by the first six kinds
					} else if field != hACRH && shape != "bytes" && shape != "lines" {
						continue
					}
					for _, method := range []string{"OPTIONS", "GET"} {
						for _, n := range ladder {
							if n > 100000 && shape != "bytes" {
								continue
							}
							hd := http.Header{hOrigin: {"https://example.com"}, hACRM: {"PUT"}}
							if kc.many != nil {
								hd[hACRM] = []string{"GET"} // safelisted: the header step is reached
							}
							var v, v2 []string // v2: a sibling request of the same shape and size (see below)
							if lab := deepLabels[shape]; lab != "" {
								// an ALLOWED origin n labels below example.com (as many as keep the host under 253 bytes: 120 one-byte labels)
								most := (253 - len("example.com")) / (len(lab) + 1)
								if n > most {
									if n != 1000 {
										continue
									}
									n = most
								}
								v = []string{"https://" + strings.Repeat(lab+".", n) + "example.com"}
								v2 = []string{"https://" + strings.Repeat(lab+".", n-1) + strings.Replace(lab, lab[len(lab)-1:], "b", 1) + ".example.com"}
							} else if strings.HasPrefix(shape, "allowed") && shape != "allowed-then-junk" {
								if kc.many == nil || n > len(kc.many) {
									continue
								}
								many := kc.many
								spellName := func(s string) string { return s }
								pre, post, sep := "", "", ","
								switch shape {
								case "allowed-sp":
									pre = " "
								case "allowed-tab":
									pre = "\t"
								case "allowed-both":
									pre, post = "\t", " "
								case "allowed-upper": // not byte-lower-case: refused, but refusing must not cost more for more elements
									spellName = strings.ToUpper
								case "allowed-title":
									spellName = func(s string) string { return http.CanonicalHeaderKey(s) }
								case "allowed-empties":
									sep = ",,"
									if n > 16 {
										continue
									}
								}
								render := func(names []string) (v []string) {
									var parts []string
									for _, nm := range names {
										parts = append(parts, pre+spellName(nm)+post)
									}
									if shape == "allowed-lines" {
										v = parts
									} else if shape == "allowed-pairs" {
										// several elements PER field line, over many lines (per-line work that a single line hides)
										for q := 0; q < len(parts); q += 2 {
											v = append(v, strings.Join(parts[q:min(q+2, len(parts))], ","))
										}
									} else {
										v = []string{strings.Join(parts, sep)}
									}
									return
								}
								v = render(many[:n])
								if n < len(many) {
									v2 = render(many[1 : n+1]) // as many allowed names, not the same ones
								}
							} else if strings.HasPrefix(shape, "elen-") {
								if n > 1000 || n == 1 || kc.many != nil {
									continue // two rungs (10, 100, 1000 elements) are enough per length
								}
								L := int(shape[5]-'0')*10 + int(shape[6]-'0')
								parts := make([]string, n)
								for q := range parts {
									b := []byte(strings.Repeat("x", L))
									for d, x := L-1, q; d >= 0 && d >= L-4; d, x = d-1, x/26 {
										b[d] = 'a' + byte(x%26)
									}
									parts[q] = string(b)
								}
								v = []string{strings.Join(parts, ",")}
							} else if shape == "allowed-then-junk" {
								v = []string{"x-a,x-b," + strings.Repeat("x-c,", n)}
							} else {
								v = bigValue(rng, shape, n)
							}
							if field == hOrigin && shape == "bytes" {
								v = []string{"https://example.com" + strings.Repeat("a", n-1)}
								if n == 1 {
									v = []string{"https://example.com"}
								}
							}
							hd[field] = v
							// properties of the request beyond method and header fields: protocol version, body, TLS
							for ri, reqShape := range []int{0, 4, 5, 1, 0} {
								if ri > 0 && !(field == hACRH && (shape == "lines" || shape == "elements" || shape == "allowed-lines" || shape == "allowed-pairs" || shape == "allowed")) && !(field == hOrigin && shape == "bytes") {
									continue // the other request shapes only on the ladders where work per element / line could hide
								}
								req := reqSpec{Method: method, H: hd, Shape: reqShape}.build()
								// where there is a sibling, the two requests are served in ALTERNATION: work that is only done for a request
								// unlike the previous one (a memo of the last list that was approved, say) is done every time
								req2 := req
								if v2 != nil {
									hd2 := cloneHeader(hd)
									hd2[field] = v2
									req2 = reqSpec{Method: method, H: hd2, Shape: reqShape}.build()
								}
								w := &nullRW{h: make(http.Header, 8)}
								preset := ri == 4 // an outer layer has already set CORS and Vary response headers
								flip := false
								allocs := testing.AllocsPerRun(20, func() {
									clear(w.h)
									if preset {
										w.h["Access-Control-Allow-Headers"], w.h["Access-Control-Allow-Methods"] = presetACAH, presetACAM
										w.h["Vary"], w.h["Access-Control-Allow-Origin"], w.h["Access-Control-Expose-Headers"] = presetVary, presetACAO, presetACEH
									}
									if flip = !flip; flip {
										h.ServeHTTP(w, req)
									} else {
										h.ServeHTTP(w, req2)
									}
								})
								t.emit(map[string]any{"ev": "Alloc", "cfg": kc.name, "dbg": dbg, "field": field, "shape": shape,
									"method": method + []string{"", "/HTTP1.0", "/HTTP2", "/body", "/preset"}[ri], "size": n, "allocs": int(allocs + 0.5)})
								measures++
							}
						}
					}
				}
			}
		}
	}
	writeJSON(*out, map[string]any{"measurements": measures, "events": t.n})
}
