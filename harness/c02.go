package main

import (
	"fmt"
	"slices"
	"encoding/json"
	"flag"
	"math/rand"
	"net/http"
	"sort"
	"strings"

	"github.com/jub0bs/cors"
)

// ---------------------------------------------------------------- random semantic configurations

var c02Builds int

var customMethods = []string{"PUT", "DELETE", "PATCH", "patch", "OPTIONS", "PURGE", "Put", "QUERY", "query", "M-SEARCH", "A_B", "a^b", "x",
	"LONGMETHOD" + strings.Repeat("ABCDEFGHIJKLMNOP", 16)}
var reqHdrUniverse = []string{"authorization", "x-a", "x-b", "content-type", "x-requested-with", "x-a-b", "a", "zz-last",
	// every non-alphanumeric token character, placed after letters (so that case variants have an upper-case letter in front)
	"x_trace_id", "x^caret", "x`tick", "x|bar~tilde", "x!#$%&'*+.", "0-9",
	// longer than the small buffers a case-mapping or lookup helper might use (32 / 64 bytes)
	"x-tenant-identifier-for-the-upstream-ab", "x-" + "abcdefghijklmnopqrstuvwxyz0123456789-abcdefghijklmnopqrstuvwxyz0123456789" + "-id",
	// ... and beyond what fits a uint8 length
	"x-very-long-" + strings.Repeat("0123456789abcdef", 16) + "-end"}

func normalizeMethod(m string) string {
	u := strings.ToUpper(m)
	if normalisable[u] {
		return u
	}
	return m
}

func randSem(rng *rand.Rand) Sem {
	var s Sem
	s.Status = 204
	s.Pna = "none"
	s.Cred = rng.Intn(2) == 0
	switch rng.Intn(4) {
	case 0:
		s.Pna = "cors"
	case 1:
		s.Pna = "nocors"
	}
	if !s.Cred && s.Pna == "none" && rng.Intn(3) == 0 {
		s.Any = true
		if rng.Intn(2) == 0 {
			s.Pats = family(rng, nil)
		}
	} else {
		for k := 1 + rng.Intn(3); k > 0; k-- {
			if rng.Intn(6) == 0 {
				s.Pats = ipPatterns(rng, s.Pats)
			} else {
				s.Pats = family(rng, s.Pats)
			}
		}
	}
	switch rng.Intn(4) {
	case 0:
		s.MAny = true
	case 1:
	default:
		set := map[string]bool{}
		for k := 1 + rng.Intn(3); k > 0; k-- {
			set[normalizeMethod(customMethods[rng.Intn(len(customMethods))])] = true
		}
		for m := range set {
			s.Meths = append(s.Meths, m)
		}
		sort.Strings(s.Meths)
	}
	switch rng.Intn(5) {
	case 0:
		s.HStar = true
		s.HAuth = rng.Intn(2) == 0
	case 1:
	default:
		set := map[string]bool{}
		for k := 1 + rng.Intn(4); k > 0; k-- {
			set[reqHdrUniverse[rng.Intn(len(reqHdrUniverse))]] = true
		}
		for n := range set {
			s.HNames = append(s.HNames, n)
		}
		sort.Strings(s.HNames)
		s.HAuth = set["authorization"]
	}
	switch rng.Intn(4) {
	case 0:
		s.MaxAge = -1
	case 1:
		s.MaxAge = 1 + rng.Intn(86400)
	case 2: // boundary values: around Fetch's default of 5 s, the documented maximum, small ones
		s.MaxAge = []int{1, 2, 4, 5, 6, 9, 10, 59, 60, 600, 7200, 86399, 86400}[rng.Intn(13)]
	}
	switch rng.Intn(6) {
	case 5: // the SAME names as in RequestHeaders (the two lists are independent sets)
		for _, n := range s.HNames {
			if n != "authorization" && !slices.Contains(safelistedRespHdrs, n) && rng.Intn(2) == 0 {
				s.Expose = append(s.Expose, n)
			}
		}
		if len(s.Expose) == 0 {
			s.Expose = []string{"x-a"}
		}
		sort.Strings(s.Expose)
	case 4: // names with token punctuation / beyond small buffers
		s.Expose = []string{"x_exposed_id", "x^e"}
		if rng.Intn(2) == 0 {
			s.Expose = append(s.Expose, "x-" + "abcdefghijklmnopqrstuvwxyz0123456789-abcdefghijklmnopqrstuvwxyz0123456789" + "-ex")
		}
	case 0:
		if !s.Cred {
			s.Expose = []string{"*"}
		}
	case 1:
		s.Expose = []string{"x-exposed"}
	case 2:
		s.Expose = []string{"x-e1", "etag"}
	}
	switch rng.Intn(6) {
	case 0, 1:
		s.Status = 200 + rng.Intn(100)
	case 2:
		s.Status = []int{200, 201, 203, 204, 205, 206, 226, 255, 256, 298, 299}[rng.Intn(11)]
	}
	return s
}

// ---------------------------------------------------------------- browser request intents

type intent struct {
	Origin  cOrigin
	Method  string
	Hdrs    []string // byte-lower-case, sorted, unique
	Include bool
	Pna     bool
}

func originFromPattern(rng *rand.Rand, p cPattern) cOrigin {
	o := cOrigin{Scheme: p.Scheme, Host: p.Host, Port: p.Port}
	if p.Wild {
		o.Host = randLabel(rng, 1+rng.Intn(5)) + "." + p.Host
		if rng.Intn(3) == 0 {
			o.Host = randLabel(rng, 2) + "." + o.Host
		}
		if len(o.Host) > 253 {
			o.Host = "a." + p.Host
		}
	}
	if p.Port == anyPort {
		switch rng.Intn(3) {
		case 0:
			o.Port = 0
		default:
			o.Port = randPort(rng, p.Scheme)
		}
	}
	return o
}

func randIntent(rng *rand.Rand, s Sem) intent {
	var it intent
	// origin: from a pattern (allowed), or a near miss, or unrelated
	if len(s.Pats) > 0 && rng.Intn(4) != 0 {
		p := s.Pats[rng.Intn(len(s.Pats))]
		if rng.Intn(3) == 0 {
			nm := nearMisses(rng, p, nil)
			it.Origin = nm[rng.Intn(len(nm))]
		} else {
			it.Origin = originFromPattern(rng, p)
		}
	} else {
		it.Origin = cOrigin{Scheme: "https", Host: randDomain(rng)}
	}
	pool := append([]string{"GET", "HEAD", "POST", "PUT", "DELETE", "PATCH", "patch", "OPTIONS", "PURGE", "QUERY", "query", "Put"}, s.Meths...)
	it.Method = pool[rng.Intn(len(pool))]
	if u := strings.ToUpper(it.Method); normalisable[u] {
		it.Method = u // the browser normalises these (https://fetch.spec.whatwg.org/#concept-method-normalize)
	}
	hpool := append(append([]string{}, reqHdrUniverse...), s.HNames...)
	set := map[string]bool{}
	for k := rng.Intn(4); k > 0; k-- {
		set[hpool[rng.Intn(len(hpool))]] = true
	}
	if rng.Intn(4) == 0 {
		set["authorization"] = true
	}
	for n := range set {
		it.Hdrs = append(it.Hdrs, n)
	}
	sort.Strings(it.Hdrs)
	it.Include = rng.Intn(2) == 0
	it.Pna = rng.Intn(4) == 0
	return it
}

// relatedOrigins: for every ordered pair of listed patterns (p, q), origins built from p's host (itself, a label below it, a
// label glued in front of it) with q's scheme and port: whether they are allowed is for TLC to say.
func relatedOrigins(s Sem) []cOrigin {
	var out []cOrigin
	seen := map[string]bool{}
	for i, p := range s.Pats {
		if p.Wild || strings.HasPrefix(p.Host, "[") {
			continue
		}
		for j, q := range s.Pats {
			if i == j {
				continue
			}
			port := q.Port
			if port == anyPort {
				port = 4711
			}
			for _, h := range []string{p.Host, "v2." + p.Host, "my" + p.Host} {
				o := cOrigin{Scheme: q.Scheme, Host: h, Port: port}
				if !seen[o.String()] && len(out) < 48 {
					seen[o.String()] = true
					out = append(out, o)
				}
			}
		}
	}
	return out
}

// acrhLines renders the browser's ACRH value (sorted, unique, byte-lower-case, comma-joined, no
// whitespace) under one of the tolerated intermediary perturbations. It returns the field
// lines and the perturbation's name.
func acrhLines(rng *rand.Rand, names []string, pert string) []string {
	ows := func() string {
		if rng.Intn(2) == 0 {
			return " "
		}
		return "\t"
	}
	switch pert {
	case "none":
		return []string{strings.Join(names, ",")}
	case "ows":
		parts := make([]string, len(names))
		for i, n := range names {
			parts[i] = n
			if rng.Intn(3) != 0 {
				parts[i] = ows() + parts[i]
			}
			if rng.Intn(3) != 0 {
				parts[i] = parts[i] + ows()
			}
		}
		return []string{strings.Join(parts, ",")}
	case "empties":
		// a few empty elements (well below the documented budget of 16), some of them whitespace-only
		var parts []string
		parts = append(parts, "")
		for _, n := range names {
			parts = append(parts, n)
			if rng.Intn(2) == 0 {
				parts = append(parts, "")
			}
		}
		parts = append(parts, ows())
		return []string{strings.Join(parts, ",")}
	case "split":
		// split across several field lines at element boundaries
		var lines []string
		cur := []string{}
		for _, n := range names {
			cur = append(cur, n)
			if rng.Intn(2) == 0 {
				lines = append(lines, strings.Join(cur, ","))
				cur = []string{}
			}
		}
		if len(cur) > 0 || len(lines) == 0 {
			lines = append(lines, strings.Join(cur, ","))
		}
		return lines
	default: // "mix"
		var lines []string
		lines = append(lines, "")
		for i, n := range names {
			e := n
			if i%2 == 0 {
				e = ows() + e
			} else {
				e = e + ows()
			}
			lines = append(lines, e+",")
		}
		return lines
	}
}

var perts = []string{"none", "ows", "empties", "split", "mix"}

func cmdC02(args []string) {
	fs := flag.NewFlagSet("c02", flag.ExitOnError)
	trace := fs.String("trace", "", "NDJSON trace to write")
	n := fs.Int("cells", 5000, "number of (configuration, intent, debug, perturbation) cells")
	out := fs.String("out", "", "summary JSON")
	fs.Parse(args)
	rng := newRand()
	t := newTracer(*trace)
	defer t.close()
	var cells, cfgs, rejected, nontrivial int
	var samples []any
	// deterministic start: every kind of configuration (serve.go) and a specific pattern listed under a wildcard that covers
	// its host with another port; then seeded ones
	fixed := append(fixedSems(rng), Sem{Status: 204, Pna: "none", Meths: []string{"PUT"}, HNames: []string{"x-a"}, Pats: []cPattern{
		{Scheme: "https", Wild: true, Host: "example.com"}, {Scheme: "https", Host: "api.example.com", Port: 8443},
		{Scheme: "https", Host: "foo.example.net"}, {Scheme: "https", Wild: true, Host: "example.net"}}})
	for ci := 0; cells < *n; ci++ {
		s := randSem(rng)
		if ci < len(fixed) && len(fixed[ci].Pats) <= 8 {
			s = fixed[ci]
		}
		cfg := s.spell(rng)
		c02Builds++
		m := buildVia(*cfg, c02Builds) // every documented way of arriving at (cfg, debug off)
		var err error
		if m == nil {
			if _, err = cors.NewMiddleware(*cfg); err == nil {
				err = fmt.Errorf("accepted by NewMiddleware but rejected on the way number %d of buildVia", c02Builds%6)
			}
		}
		noise(m)
		if err != nil {
			rejected++
			t.emit(map[string]any{"ev": "Rejected", "cfg": cfgJSON(cfg), "err": err.Error()})
			continue
		}
		cfgs++
		t.emit(map[string]any{"ev": "Config", "sem": s.toJSON(), "cfg": cfgJSON(cfg)})
		related := relatedOrigins(s)
		for k := 0; k < 24+len(related); k++ {
			it := randIntent(rng, s)
			if k >= 24 { // origins RELATED to two listed patterns at once (host of one, scheme / port of the other; below, beside)
				it.Origin = related[k-24]
				it.Hdrs, it.Pna = nil, false
				it.Method = []string{"GET", "PUT"}[k%2]
			}
			pert := perts[rng.Intn(len(perts))]
			for _, dbg := range []bool{false, true} {
				m.SetDebug(dbg)
				ostr := it.Origin.String()
				// the CORS-preflight request, as https://fetch.spec.whatwg.org/#cors-preflight-fetch-0 builds it
				ph := http.Header{"Origin": {ostr}, "Access-Control-Request-Method": {it.Method}}
				if len(it.Hdrs) > 0 {
					ph["Access-Control-Request-Headers"] = acrhLines(rng, it.Hdrs, pert)
				}
				if it.Pna {
					ph["Access-Control-Request-Private-Network"] = []string{"true"}
				}
				pre := serve(m, newReq("OPTIONS", ph), nil)
				ah := http.Header{"Origin": {ostr}}
				for _, hn := range it.Hdrs {
					ah[http.CanonicalHeaderKey(hn)] = []string{"v"}
				}
				act := serve(m, newReq(it.Method, ah), nil)
				t.emit(map[string]any{
					"ev": "Fetch", "dbg": dbg, "pert": pert,
					"origin": map[string]any{"scheme": it.Origin.Scheme, "host": codes(it.Origin.Host), "port": it.Origin.Port, "txt": ostr},
					"method": it.Method, "hdrs": nzs(it.Hdrs), "include": it.Include, "pna": it.Pna,
					"acrh": nzs(ph["Access-Control-Request-Headers"]),
					"pre":  absResp(pre.w), "act": absResp(act.w),
				})
				cells++
			}
			if len(it.Hdrs) >= 2 || it.Pna {
				nontrivial++
			}
		}
		if len(samples) < 3 {
			samples = append(samples, map[string]any{"config": cfgJSON(cfg), "sem": s.toJSON()})
		}
	}
	writeJSON(*out, map[string]any{"cells": cells, "configs": cfgs, "rejected": rejected, "nontrivial": nontrivial, "events": t.n, "samples": samples})
}

func nzs(x []string) []string {
	if x == nil {
		return []string{}
	}
	return x
}

func cfgJSON(c *cors.Config) any {
	if c == nil {
		return "nil (passthrough)"
	}
	return map[string]any{
		"Origins": nzs(c.Origins), "Credentialed": c.Credentialed, "Methods": nzs(c.Methods),
		"RequestHeaders": nzs(c.RequestHeaders), "MaxAgeInSeconds": c.MaxAgeInSeconds,
		"ResponseHeaders": nzs(c.ResponseHeaders), "PreflightSuccessStatus": c.PreflightSuccessStatus,
		"PrivateNetworkAccess": c.PrivateNetworkAccess, "PrivateNetworkAccessInNoCORSModeOnly": c.PrivateNetworkAccessInNoCORSModeOnly,
		"DangerouslyTolerateInsecureOrigins":            c.DangerouslyTolerateInsecureOrigins,
		"DangerouslyTolerateSubdomainsOfPublicSuffixes": c.DangerouslyTolerateSubdomainsOfPublicSuffixes,
	}
}

// ---------------------------------------------------------------- binding G for C02: replay of CorsMC's semantic configurations

// cmdC02Gen reads the semantic configurations enumerated by TLC (CorsMC.tla: every combination of credentials, PNA mode,
// allow-all / discrete origins, methods, request headers incl. * with or without Authorization, max-age, exposed headers,
// status) and runs, for each, the WHOLE abstract intent universe of CorsMC (2 origins x 6 methods x 8 header subsets x
// credentials mode x PNA) x 5 tolerated perturbations x debug on/off against a real middleware configured accordingly.
func cmdC02Gen(args []string) {
	fs := flag.NewFlagSet("c02gen", flag.ExitOnError)
	cases := fs.String("cases", "", "semantic configurations written by TLC (CorsMC.tla)")
	trace := fs.String("trace", "", "NDJSON trace to write")
	stride := fs.Int("stride", 1, "use every stride-th configuration")
	shard := fs.Int("shard", 0, "this shard")
	nshards := fs.Int("nshards", 1, "number of shards")
	out := fs.String("out", "", "summary JSON")
	fs.Parse(args)
	rng := newRand()
	t := newTracer(*trace)
	defer t.close()
	type jsem struct {
		Any    bool     `json:"any"`
		Cred   bool     `json:"cred"`
		MAny   bool     `json:"mAny"`
		Meths  []string `json:"meths"`
		HStar  bool     `json:"hStar"`
		HAuth  bool     `json:"hAuth"`
		HNames []string `json:"hNames"`
		MaxAge int      `json:"maxAge"`
		Expose string   `json:"expose"`
		Status int      `json:"status"`
		Pna    string   `json:"pna"`
	}
	oA := cOrigin{Scheme: "https", Host: "a.example"}
	oB := cOrigin{Scheme: "https", Host: "b.example"}
	methods := []string{"GET", "PUT", "PATCH", "patch", "OPTIONS", "DELETE"}
	hdrSubsets := [][]string{{}, {"authorization"}, {"x-a"}, {"x-b"}, {"authorization", "x-a"}, {"authorization", "x-b"}, {"x-a", "x-b"}, {"authorization", "x-a", "x-b"}}
	idx, used, cells, rejected := 0, 0, 0, 0
	off := int(seedFromEnv()) % *stride
	seen := map[string]bool{}
	readCases(*cases, func(line []byte) {
		if seen[string(line)] {
			return
		}
		seen[string(line)] = true
		idx++
		if (idx+off)%*stride != 0 || (idx / *stride)%*nshards != *shard {
			return
		}
		var j jsem
		if err := json.Unmarshal(line, &j); err != nil {
			fatal("bad sem: %v", err)
		}
		s := Sem{Any: j.Any, Cred: j.Cred, MAny: j.MAny, Meths: j.Meths, HStar: j.HStar, HAuth: j.HAuth, HNames: j.HNames,
			MaxAge: j.MaxAge, Status: j.Status, Pna: j.Pna}
		sort.Strings(s.Meths)
		sort.Strings(s.HNames)
		if j.Expose != "" {
			s.Expose = []string{j.Expose}
		}
		if !s.Any || rng.Intn(2) == 0 {
			s.Pats = []cPattern{{Scheme: "https", Host: "a.example"}}
		}
		cfg := s.spell(rng)
		c02Builds++
		m := buildVia(*cfg, c02Builds) // every documented way of arriving at (cfg, debug off)
		var err error
		if m == nil {
			if _, err = cors.NewMiddleware(*cfg); err == nil {
				err = fmt.Errorf("accepted by NewMiddleware but rejected on the way number %d of buildVia", c02Builds%6)
			}
		}
		noise(m)
		if err != nil {
			rejected++
			t.emit(map[string]any{"ev": "Rejected", "cfg": cfgJSON(cfg), "err": err.Error()})
			return
		}
		used++
		// the abstract token oA is allowed (member) iff the configuration is discrete; under allow-all both are allowed
		t.emit(map[string]any{"ev": "Config", "sem": s.toJSON(), "cfg": cfgJSON(cfg)})
		for _, o := range []cOrigin{oA, oB} {
			for _, method := range methods {
				for _, hs := range hdrSubsets {
					for _, include := range []bool{false, true} {
						for _, pna := range []bool{false, true} {
							for _, pert := range perts {
								for _, dbg := range []bool{false, true} {
									m.SetDebug(dbg)
									ostr := o.String()
									ph := http.Header{"Origin": {ostr}, "Access-Control-Request-Method": {method}}
									if len(hs) > 0 {
										ph["Access-Control-Request-Headers"] = acrhLines(rng, hs, pert)
									}
									if pna {
										ph["Access-Control-Request-Private-Network"] = []string{"true"}
									}
									pre := serve(m, newReq("OPTIONS", ph), nil)
									act := serve(m, newReq(method, http.Header{"Origin": {ostr}}), nil)
									t.emit(map[string]any{
										"ev": "Fetch", "dbg": dbg, "pert": pert,
										"origin": map[string]any{"scheme": o.Scheme, "host": codes(o.Host), "port": o.Port, "txt": ostr},
										"method": method, "hdrs": nzs(hs), "include": include, "pna": pna,
										"acrh": nzs(ph["Access-Control-Request-Headers"]),
										"pre":  absResp(pre.w), "act": absResp(act.w),
									})
									cells++
								}
							}
						}
					}
				}
			}
		}
	})
	writeJSON(*out, map[string]any{"cells": cells, "configs": used, "rejected": rejected, "nontrivial": cells / 2, "events": t.n, "samples": []any{}})
}
