package main

import (
	"flag"

	"github.com/jub0bs/cors"
)

// nf: Config() values of real middlewares, for TraceNormal.tla. A Sem is chosen, spelled as a Config in a random
// equivalent way, and Config() is recorded for generation 0 (as built), 1 and 2 (after m.Reconfigure(m.Config())).

func codeLists(ss []string) [][]int {
	out := make([][]int, 0, len(ss))
	for _, s := range ss {
		out = append(out, codes(s))
	}
	return out
}

func cfgCodes(c *cors.Config) map[string]any {
	return map[string]any{"origins": codeLists(c.Origins), "cred": c.Credentialed, "methods": codeLists(c.Methods),
		"reqh": codeLists(c.RequestHeaders), "maxAge": c.MaxAgeInSeconds, "resph": codeLists(c.ResponseHeaders),
		"status": c.PreflightSuccessStatus, "pna": c.PrivateNetworkAccess, "nocors": c.PrivateNetworkAccessInNoCORSModeOnly}
}

func semCodes(s Sem) map[string]any {
	pats := make([]map[string]any, 0, len(s.Pats))
	for _, p := range s.Pats {
		port := p.Port
		if port == anyPort {
			port = 65536
		}
		pats = append(pats, map[string]any{"scheme": p.Scheme, "wild": p.Wild, "host": codes(p.Host), "port": port, "str": codes(p.String())})
	}
	return map[string]any{"any": s.Any, "pats": pats, "cred": s.Cred, "mAny": s.MAny, "meths": codeLists(s.Meths), "hStar": s.HStar,
		"hAuth": s.HAuth, "hNames": codeLists(s.HNames), "maxAge": s.MaxAge, "expose": codeLists(s.Expose), "status": s.Status, "pna": s.Pna}
}

func cmdNF(args []string) {
	fs := flag.NewFlagSet("nf", flag.ExitOnError)
	trace := fs.String("trace", "", "NDJSON trace")
	n := fs.Int("n", 300, "number of configurations")
	out := fs.String("out", "", "summary JSON")
	fs.Parse(args)
	rng := newRand()
	t := newTracer(*trace)
	defer t.close()
	cases, rejected := 0, 0
	for i := 0; i < *n; i++ {
		var s Sem
		switch i {
		case 0:
			s = semA()
		case 1:
			s = semB()
		case 2, 3, 4, 5, 6, 7, 8, 9, 10, 11, 12, 13:
			s = semA()
			s.MaxAge = []int{-1, 0, 1, 2, 4, 5, 6, 10, 60, 600, 86399, 86400}[i-2]
			s.Status = []int{204, 200, 201, 203, 205, 206, 226, 250, 255, 256, 298, 299}[i-2]
		default:
			s = randSem(rng)
			if i%5 == 0 { // more structure in the origin tree: families on families
				s.Any = false
				s.Pats = family(rng, family(rng, ipPatterns(rng, nil)))
			}
		}
		c := s.spell(rng)
		m, err := cors.NewMiddleware(*c)
		if err != nil {
			rejected++
			continue
		}
		var outs []map[string]any
		ok := true
		for g := 0; g < 3; g++ {
			cfg := m.Config()
			outs = append(outs, cfgCodes(cfg))
			if err := m.Reconfigure(cfg); err != nil {
				ok = false // C06's business
			}
		}
		if !ok {
			continue
		}
		t.emit(map[string]any{"ev": "NF", "sem": semCodes(s), "outs": outs, "given": cfgJSON(c)})
		cases++
	}
	writeJSON(*out, map[string]any{"cases": cases, "rejected": rejected, "events": t.n})
}
