//go:build !verifgates

package main

// Without the check-time mutex instrumentation only the gates that need none are available
// (ResponseWriter.Header/WriteHeader/Write and the wrapped handler).
func installMutexGate(f func(kind string)) bool { return false }
