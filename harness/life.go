package main

import (
	"slices"
	"crypto/sha256"
	"encoding/hex"
	"encoding/json"
	"flag"
	"fmt"
	"math/rand"
	"net/http"
	"os"
	"sort"
	"strings"
	"time"

	"github.com/jub0bs/cors"
)

// ---------------------------------------------------------------- the two reference configurations

// semA and semB differ in every observable aspect (origins, credentials, methods, request
// headers, max-age, exposed headers, success status, PNA).
func semA() Sem {
	return Sem{Pats: []cPattern{{Scheme: "https", Host: "a.example"}}, Cred: true, Meths: []string{"PUT"},
		HNames: []string{"x-a"}, MaxAge: 30, Expose: []string{"x-ea"}, Status: 204, Pna: "none"}
}

func semB() Sem {
	return Sem{Pats: []cPattern{{Scheme: "https", Host: "b.example"}, {Scheme: "https", Wild: true, Host: "b.example", Port: anyPort}},
		Meths: []string{"DELETE", "PATCH"}, HNames: []string{"authorization", "x-b"}, HAuth: true, MaxAge: -1, Expose: []string{"*"}, Status: 200, Pna: "cors"}
}

// plainConfig spells a Sem canonically (no randomisation): used where the same Config value
// must be reproducible.
func plainConfig(s Sem) cors.Config {
	return *s.spell(rand.New(rand.NewSource(7)))
}

// ---------------------------------------------------------------- probe suites and fingerprints

// smallSuite: a handful of probes per configuration, enough to tell apart passthrough / each
// configuration / debug on and off (a failing preflight shows the debug mode).
func smallSuite(sems []Sem) []reqSpec {
	rng := rand.New(rand.NewSource(11))
	var out []reqSpec
	add := func(m string, kv ...string) {
		h := http.Header{}
		for i := 0; i+1 < len(kv); i += 2 {
			h[kv[i]] = append(h[kv[i]], kv[i+1])
		}
		out = append(out, reqSpec{Method: m, H: h})
	}
	add("GET")
	add("OPTIONS")
	add("GET", hOrigin, "https://unrelated.example.net")
	add("OPTIONS", hOrigin, "https://unrelated.example.net", hACRM, "PUT")
	// every value an adversarial caller / handler writes in place somewhere (scribbleWords), presented as an Origin: if the
	// middleware kept an alias of a slice that was overwritten, it now "remembers" that value
	for _, w := range scribbleWords {
		add("GET", hOrigin, w)
		add("OPTIONS", hOrigin, w, hACRM, "PUT")
	}
	add("GET", hOrigin, "https://reused.example") // the origin a caller writes into a Config it passes again (mode multi)
	add("OPTIONS", hOrigin, "https://reused.example", hACRM, "PUT")
	for _, s := range sems {
		for _, p := range s.Pats {
			o := originFromPattern(rng, p).String()
			add("GET", hOrigin, o)
			add("GET", hOrigin, editedOrigin) // what the handler of the request before has just written over the values it was given
			add("OPTIONS", hOrigin, editedOrigin, hACRM, "PUT")
			add("OPTIONS", hOrigin, o, hACRM, "PUT")
			add("OPTIONS", hOrigin, o, hACRM, "QUERY")
			add("OPTIONS", hOrigin, o, hACRM, "GET", hACRH, "x-a")
			add("OPTIONS", hOrigin, o, hACRM, "GET", hACRH, "x-nope")
			add("OPTIONS", hOrigin, o, hACRM, "GET", hACRPN, "true")
		}
	}
	return out
}

func probeSuite(sems []Sem) []reqSpec {
	rng := rand.New(rand.NewSource(11))
	var out []reqSpec
	add := func(m string, kv ...string) {
		h := http.Header{}
		for i := 0; i+1 < len(kv); i += 2 {
			h[kv[i]] = append(h[kv[i]], kv[i+1])
		}
		out = append(out, reqSpec{Method: m, H: h})
	}
	add("GET")
	add("OPTIONS")
	add("OPTIONS", hACRM, "PUT")
	origins := append([]string{"https://unrelated.example.net", "null", "junk"}, scribbleWords...)
	for _, s := range sems {
		for _, p := range s.Pats {
			origins = append(origins, originFromPattern(rng, p).String())
			for i, nm := range nearMisses(rng, p, nil) {
				if i%7 == 0 {
					origins = append(origins, nm.String())
				}
			}
		}
	}
	methods := []string{"GET", "PUT", "DELETE", "QUERY"}
	hdrs := []string{"", "x-a", "authorization", "x-a,x-b", "x-nope"}
	for _, s := range sems {
		methods = append(methods, s.Meths...)
		if len(s.HNames) > 0 {
			hdrs = append(hdrs, strings.Join(s.HNames, ","))
		}
	}
	for _, o := range origins {
		add("GET", hOrigin, o)
		add("GET", hOrigin, editedOrigin) // see smallSuite
		add("OPTIONS", hOrigin, o)
		add("POST", hOrigin, o, "X-A", "1")
		for _, m := range methods {
			add("OPTIONS", hOrigin, o, hACRM, m)
			add("OPTIONS", hOrigin, o, hACRM, m, hACRPN, "true")
		}
		for _, hh := range hdrs {
			if hh != "" {
				add("OPTIONS", hOrigin, o, hACRM, "PUT", hACRH, hh)
				add("OPTIONS", hOrigin, o, hACRM, "GET", hACRH, hh)
			}
		}
	}
	return out
}

// fingerprint runs the probe suite against m and hashes every response (status, all headers,
// whether the wrapped handler was invoked). Equal fingerprints <=> equal answers to every probe.
func fingerprint(m *cors.Middleware, suite []reqSpec) string {
	hsh := sha256.New()
	for _, rs := range suite {
		h := http.Header{}
		for k, v := range rs.H {
			h[k] = append([]string(nil), v...)
		}
		sv := serve(m, newReq(rs.Method, h), nil)
		fmt.Fprintf(hsh, "%d|%d|", sv.w.status, sv.invoked)
		fin := sv.w.final()
		for _, k := range sortedKeys(fin) {
			fmt.Fprintf(hsh, "%s=%q;", k, fin[k])
		}
		hsh.Write([]byte{'\n'})
	}
	return hex.EncodeToString(hsh.Sum(nil))[:24]
}

func configFingerprint(c *cors.Config) (string, bool) {
	if c == nil {
		return "nil", true
	}
	b, _ := json.Marshal(cfgJSON(c))
	s := sha256.Sum256(b)
	return hex.EncodeToString(s[:])[:24], false
}

type lifeRun struct {
	t     *tracer
	suite []reqSpec
	mws   map[string]*cors.Middleware
	ab    bool // the segment uses the named configurations A / B only (modes hist, multi, rejtwin): Debug events are emitted
	// inHandler: SetDebug / Reconfigure are called the way the documentation invites - from an endpoint of the very server the
	// middleware protects, i.e. from inside a handler that this middleware wraps (under a watchdog)
	inHandler bool
	onHang    func()
	useWitness bool
}

func (lr *lifeRun) call(id, what string, f func()) {
	if !lr.inHandler {
		f()
		return
	}
	done := make(chan any, 1)
	h := handlerFor(lr.mws[id], http.HandlerFunc(func(w http.ResponseWriter, _ *http.Request) {
		f()
		w.WriteHeader(204)
	}))
	go func() {
		defer func() { done <- recover() }()
		h.ServeHTTP(newRec(), newReq("POST", http.Header{"X-Admin": {"1"}}))
	}()
	select {
	case p := <-done:
		if p != nil {
			panic(p)
		}
	case <-time.After(10 * time.Second):
		lr.t.emit(map[string]any{"ev": "Hang", "by": "handler", "mw": id, "what": what + " called from a handler that the middleware itself wraps has not returned after 10 s"})
		lr.onHang()
	}
}

func (lr *lifeRun) observe(id string) {
	m := lr.mws[id]
	if m == nil {
		return
	}
	defer func() {
		if p := recover(); p != nil {
			lr.t.emit(map[string]any{"ev": "Panic", "what": fmt.Sprint(p), "where": "observe " + id})
		}
	}()
	fp := fingerprint(m, lr.suite)
	cfp, isNil := configFingerprint(m.Config())
	lr.t.emit(map[string]any{"ev": "Observe", "mw": id, "fp": fp, "cfgnil": isNil, "cfgfp": cfp})
	if lr.ab {
		// what debug mode IS: a preflight that fails after the origin step is answered with the ok status and the partial
		// headers. One such preflight per named configuration (A: a.example, B: b.example, status 200 = stored as 0).
		shown := false
		for _, o := range []string{"https://a.example", "https://b.example", "https://reused.example"} {
			w := newRec()
			// QUERY is allowed by neither A nor B: the preflight fails at the METHOD step (a failure at the header step is
			// answered as a success with the full list in debug mode and would not go through the failure path)
			handlerFor(m, okHandler).ServeHTTP(w, newReq("OPTIONS", http.Header{hOrigin: {o}, hACRM: {"QUERY"}}))
			st := w.status
			if st == 0 {
				st = 200
			}
			if st >= 200 && st < 300 && len(w.final()["Access-Control-Allow-Origin"]) > 0 {
				shown = true
			}
		}
		lr.t.emit(map[string]any{"ev": "Debug", "mw": id, "shown": shown})
	}
}

func (lr *lifeRun) pair(a, b string) {
	ma, mb := lr.mws[a], lr.mws[b]
	if ma == nil || mb == nil {
		return
	}
	defer func() {
		if p := recover(); p != nil {
			lr.t.emit(map[string]any{"ev": "Panic", "what": fmt.Sprint(p), "where": "pair " + a + "/" + b})
		}
	}()
	ca, na := configFingerprint(ma.Config())
	cb, nb := configFingerprint(mb.Config())
	lr.t.emit(map[string]any{"ev": "Pair", "a": a, "b": b, "fpa": fingerprint(ma, lr.suite), "fpb": fingerprint(mb, lr.suite),
		"cfa": fmt.Sprint(na, ca), "cfb": fmt.Sprint(nb, cb)})
}

// The WITNESS: a middleware built before anything else happens in the run, which nobody touches afterwards (several schemes on one
// host, ports, a wildcard, every list non-empty: it holds a view into whatever table the library shares between trees). At the start
// of every segment it answers a fixed probe suite; the answers must be those it gave when the run began (modes of C12: mutate, multi).
var witness *cors.Middleware
var witnessFirst string

func witnessSuite() []reqSpec {
	var out []reqSpec
	for _, o := range []string{"https://witness.example", "http://witness.example:8080", "https://a.witness.example:9", "wss://witness.example", "https://other.example"} {
		out = append(out, reqSpec{Method: "GET", H: http.Header{hOrigin: {o}}},
			reqSpec{Method: "OPTIONS", H: http.Header{hOrigin: {o}, hACRM: {"PUT"}, hACRH: {"x-w"}}},
			reqSpec{Method: "OPTIONS", H: http.Header{hOrigin: {o}, hACRM: {"QUERY"}}})
	}
	return out
}

func (lr *lifeRun) witnessCheck() {
	if !lr.useWitness {
		return
	}
	defer func() { recover() }()
	if witness == nil {
		w, err := cors.NewMiddleware(cors.Config{Origins: []string{"https://witness.example", "http://witness.example:8080", "wss://witness.example", "https://*.witness.example:*"},
			Methods: []string{"PUT"}, RequestHeaders: []string{"X-W"}, ResponseHeaders: []string{"X-We"}, MaxAgeInSeconds: 30})
		if err != nil {
			fatal("witness: %v", err)
		}
		witness, witnessFirst = w, fingerprint(w, witnessSuite())
	}
	lr.t.emit(map[string]any{"ev": "Witness", "fp": fingerprint(witness, witnessSuite()), "first": witnessFirst})
}

func (lr *lifeRun) reset(suite []reqSpec) {
	lr.witnessCheck()
	clear(earlyWrapped)
	lr.suite = suite
	lr.mws = map[string]*cors.Middleware{}
	lr.t.emit(map[string]any{"ev": "Reset"})
}

// resetKeep starts a new segment that uses the SAME named configurations and the same probe suite as the previous one:
// the monitor keeps its reference observations, so equal abstract states are compared across histories too.
func (lr *lifeRun) resetKeep(suite []reqSpec) {
	lr.ab = true
	if lr.suite == nil {
		lr.reset(suite)
		return
	}
	lr.witnessCheck()
	clear(earlyWrapped)
	lr.mws = map[string]*cors.Middleware{}
	lr.t.emit(map[string]any{"ev": "Reset", "keep": true})
}

// tryNew is cors.NewMiddleware under recover: a panic inside the library is C17's business, not the end of this run.
func tryNew(cfg cors.Config) (m *cors.Middleware, err error) {
	defer func() {
		if p := recover(); p != nil {
			m, err = nil, fmt.Errorf("panic: %v", p)
		}
	}()
	return cors.NewMiddleware(cfg)
}

func tryReconf(m *cors.Middleware, cfg *cors.Config) (err error) {
	defer func() {
		if p := recover(); p != nil {
			err = fmt.Errorf("panic: %v", p)
		}
	}()
	return m.Reconfigure(cfg)
}

func (lr *lifeRun) newMW(id, cfgID string, cfg cors.Config) {
	m, err := tryNew(cfg)
	lr.t.emit(map[string]any{"ev": "New", "mw": id, "cfg": cfgID, "ok": err == nil, "nilmw": m == nil})
	if err == nil {
		lr.mws[id] = m
		if lr.t.n%2 == 0 {
			wrapEarly(m) // one handler for the middleware's whole life, as an application would have
		}
	}
}

func (lr *lifeRun) zero(id string) {
	lr.mws[id] = new(cors.Middleware)
	wrapEarly(lr.mws[id]) // wrapped BEFORE it is configured
	lr.t.emit(map[string]any{"ev": "Zero", "mw": id})
}

func (lr *lifeRun) reconf(id, cfgID string, cfg *cors.Config) {
	var err error
	lr.call(id, "Reconfigure("+cfgID+")", func() { err = tryReconf(lr.mws[id], cfg) })
	lr.t.emit(map[string]any{"ev": "Reconf", "mw": id, "cfg": cfgID, "ok": err == nil})
}

func (lr *lifeRun) setDebug(id string, b bool) {
	lr.call(id, fmt.Sprintf("SetDebug(%v)", b), func() { lr.mws[id].SetDebug(b) })
	lr.t.emit(map[string]any{"ev": "SetDebug", "mw": id, "b": b})
}

// ---------------------------------------------------------------- invalid configurations (C08)

type labelledConfig struct {
	Label string
	Cfg   cors.Config
}

// invalidConfigs: one or many violations in any field; the other fields are valid and different
// from semA/semB.
func invalidConfigs() []labelledConfig {
	base := func() cors.Config {
		return cors.Config{Origins: []string{"https://other.example"}, Methods: []string{"DELETE"}, RequestHeaders: []string{"X-Other"},
			MaxAgeInSeconds: 77, ResponseHeaders: []string{"X-Other-Exposed"}}
	}
	var out []labelledConfig
	add := func(l string, f func(c *cors.Config)) {
		c := base()
		f(&c)
		out = append(out, labelledConfig{l, c})
	}
	add("no-origins", func(c *cors.Config) { c.Origins = nil })
	add("null-origin", func(c *cors.Config) { c.Origins = []string{"https://ok.example", "null"} })
	add("bad-pattern-last", func(c *cors.Config) { c.Origins = []string{"https://ok.example", "https://ok2.example", "http://*.*.example"} })
	add("star-credentialed", func(c *cors.Config) { c.Origins = []string{"*"}; c.Credentialed = true })
	add("star-pna", func(c *cors.Config) { c.Origins = []string{"*"}; c.PrivateNetworkAccess = true })
	add("insecure-credentialed", func(c *cors.Config) { c.Origins = []string{"http://insecure.example"}; c.Credentialed = true })
	add("psl", func(c *cors.Config) { c.Origins = []string{"https://*.com"} })
	add("forbidden-method", func(c *cors.Config) { c.Methods = []string{"PUT", "CONNECT"} })
	add("invalid-method", func(c *cors.Config) { c.Methods = []string{"résumé"} })
	add("forbidden-req-header", func(c *cors.Config) { c.RequestHeaders = []string{"X-Fine", "Cookie"} })
	add("prohibited-req-header", func(c *cors.Config) { c.RequestHeaders = []string{"Access-Control-Allow-Origin"} })
	add("invalid-req-header", func(c *cors.Config) { c.RequestHeaders = []string{"bad header"} })
	add("max-age-high", func(c *cors.Config) { c.MaxAgeInSeconds = 86401 })
	add("max-age-low", func(c *cors.Config) { c.MaxAgeInSeconds = -2 })
	add("forbidden-resp-header", func(c *cors.Config) { c.ResponseHeaders = []string{"Set-Cookie"} })
	add("prohibited-resp-header", func(c *cors.Config) { c.ResponseHeaders = []string{"X-Fine", "Origin"} })
	add("star-resp-credentialed", func(c *cors.Config) {
		c.ResponseHeaders = []string{"*"}
		c.Credentialed = true
	})
	add("status-low", func(c *cors.Config) { c.PreflightSuccessStatus = 199 })
	add("status-high", func(c *cors.Config) { c.PreflightSuccessStatus = 300 })
	add("both-pna", func(c *cors.Config) { c.PrivateNetworkAccess = true; c.PrivateNetworkAccessInNoCORSModeOnly = true })
	add("only-late-field", func(c *cors.Config) { c.ResponseHeaders = []string{"Access-Control-Request-Method"} })
	add("many", func(c *cors.Config) {
		c.Origins = []string{"null", "*", "http://[::1]:0"}
		c.Credentialed = true
		c.Methods = []string{"TRACE", "a b"}
		c.RequestHeaders = []string{"Host", "é"}
		c.MaxAgeInSeconds = 100000
		c.ResponseHeaders = []string{"*", "Set-Cookie2"}
		c.PreflightSuccessStatus = 99
		c.PrivateNetworkAccess = true
		c.PrivateNetworkAccessInNoCORSModeOnly = true
	})
	add("status-and-valid-rest", func(c *cors.Config) {
		c.Origins = []string{"https://b.example"}
		c.PreflightSuccessStatus = 404
	})
	add("both-pna-and-valid-rest", func(c *cors.Config) {
		c.Origins = []string{"https://a.example", "https://b.example"}
		c.Methods = []string{"*"}
		c.PrivateNetworkAccess = true
		c.PrivateNetworkAccessInNoCORSModeOnly = true
	})
	return out
}

// ---------------------------------------------------------------- adversarial in-place writes (C12)

var scribbleWords = []string{"*", "https://evil.example", "x-evil", "null", "true", "evil"}

func scribble(s []string, with string) {
	s = s[:cap(s)]
	for i := range s {
		if strings.HasPrefix(with, "+") { // "adds one more value" to the element instead of replacing it
			s[i] += with[1:]
		} else {
			s[i] = with
		}
	}
}

func scribbleConfig(c *cors.Config, with string) {
	if c == nil {
		return
	}
	// ... and the fields that are not slices (a result that points INTO the middleware instead of copying it shows here)
	c.Credentialed = !c.Credentialed
	c.MaxAgeInSeconds, c.PreflightSuccessStatus = 86401, 299
	c.PrivateNetworkAccess, c.PrivateNetworkAccessInNoCORSModeOnly = !c.PrivateNetworkAccess, true
	c.DangerouslyTolerateInsecureOrigins = !c.DangerouslyTolerateInsecureOrigins
	c.DangerouslyTolerateSubdomainsOfPublicSuffixes = !c.DangerouslyTolerateSubdomainsOfPublicSuffixes
	if c == nil {
		return
	}
	scribble(c.Origins, with)
	scribble(c.Methods, with)
	scribble(c.RequestHeaders, with)
	scribble(c.ResponseHeaders, with)
}

// noise performs operations that, by the documentation, leave the middleware's behaviour exactly as it is: in-place writes
// to a Config() result, a rejected Reconfigure, another Config(). Every driver applies it
// to the middlewares it builds, so that each property is also checked AFTER such operations. Panics are C17's business.
func noise(m *cors.Middleware) {
	defer func() { recover() }()
	if m == nil {
		return
	}
	lastMW.Store(m)
	if c := m.Config(); c != nil {
		scribbleConfig(c, "https://evil.example")
		for i := range c.Methods {
			c.Methods[i] = "EVIL"
		}
	}
	bad := cors.Config{Origins: []string{"https://other.example"}, MaxAgeInSeconds: -7}
	m.Reconfigure(&bad)
	if c := m.Config(); c != nil {
		scribbleConfig(c, "x-evil")
	}
	m.Config()
	// (No m.Reconfigure(m.Config()) here: it would replace the configuration AS SPELLED by its normal form and hide whatever
	// depends on the spelling - order of entries, duplicates, letter case. The round trip has its own check, C06.)
}

// nearTweaks: the semantic configurations that differ from s in exactly one aspect.
func nearTweaks(s Sem) []Sem {
	var out []Sem
	add := func(f func(t *Sem) bool) {
		t := s
		t.Pats = append([]cPattern(nil), s.Pats...)
		t.Meths = append([]string(nil), s.Meths...)
		t.HNames = append([]string(nil), s.HNames...)
		t.Expose = append([]string(nil), s.Expose...)
		if f(&t) {
			out = append(out, t)
		}
	}
	add(func(t *Sem) bool { // `*` with / without authorization next to it (anonymous)
		if !t.HStar || t.Cred {
			return false
		}
		t.HAuth = !t.HAuth
		return true
	})
	add(func(t *Sem) bool { // discrete request headers <-> `*`
		if t.HStar {
			t.HStar, t.HAuth, t.HNames = false, false, []string{"x-a"}
		} else {
			t.HStar, t.HNames = true, nil
		}
		return true
	})
	add(func(t *Sem) bool { // one more request-header name
		if t.HStar {
			return false
		}
		t.HNames = append(t.HNames, "x-one-more")
		sort.Strings(t.HNames)
		return true
	})
	add(func(t *Sem) bool { // authorization listed or not (discrete)
		if t.HStar {
			return false
		}
		if t.HAuth {
			t.HAuth = false
			var k []string
			for _, n := range t.HNames {
				if n != "authorization" {
					k = append(k, n)
				}
			}
			t.HNames = k
		} else {
			t.HAuth, t.HNames = true, append([]string{"authorization"}, t.HNames...)
		}
		return true
	})
	add(func(t *Sem) bool { // max-age: default <-> disabled; a value <-> its successor
		switch {
		case t.MaxAge == 0:
			t.MaxAge = -1
		case t.MaxAge == -1:
			t.MaxAge = 0
		case t.MaxAge < 86400:
			t.MaxAge++
		default:
			t.MaxAge--
		}
		return true
	})
	add(func(t *Sem) bool { t.MaxAge = map[bool]int{true: 0, false: 600}[t.MaxAge != 0]; return true })
	add(func(t *Sem) bool { t.Status = map[bool]int{true: 200, false: 204}[t.Status == 204]; return true })
	add(func(t *Sem) bool { t.Status = map[bool]int{true: 299, false: 201}[t.Status != 299]; return true })
	add(func(t *Sem) bool { // one more / one fewer exposed name, `*`
		if len(t.Expose) == 1 && t.Expose[0] == "*" {
			t.Expose = []string{"x-exposed"}
		} else {
			t.Expose = append(t.Expose, "x-one-more-exposed")
			sort.Strings(t.Expose)
		}
		return true
	})
	add(func(t *Sem) bool {
		if t.Cred || (len(t.Expose) == 1 && t.Expose[0] == "*") {
			return false
		}
		t.Expose = []string{"*"}
		return true
	})
	add(func(t *Sem) bool { // methods: one more, or `*`
		if t.MAny {
			t.MAny, t.Meths = false, []string{"PUT"}
		} else {
			t.Meths = append(t.Meths, "PURGE")
			sort.Strings(t.Meths)
		}
		return true
	})
	add(func(t *Sem) bool {
		if t.MAny {
			return false
		}
		t.MAny, t.Meths = true, nil
		return true
	})
	add(func(t *Sem) bool { // credentials
		if t.Any || (len(t.Expose) == 1 && t.Expose[0] == "*") {
			return false
		}
		t.Cred = !t.Cred
		return true
	})
	add(func(t *Sem) bool { // private-network access modes
		if t.Any {
			return false
		}
		t.Pna = map[string]string{"none": "cors", "cors": "nocors", "nocors": "none"}[t.Pna]
		return true
	})
	add(func(t *Sem) bool {
		if t.Any {
			return false
		}
		t.Pna = map[string]string{"none": "nocors", "cors": "none", "nocors": "cors"}[t.Pna]
		return true
	})
	add(func(t *Sem) bool { // origins: one more pattern; another port on the first one; all origins
		if t.Any {
			return false
		}
		t.Pats = append(t.Pats, cPattern{Scheme: "https", Host: "one-more.example"})
		return true
	})
	add(func(t *Sem) bool {
		if t.Any || len(t.Pats) == 0 {
			return false
		}
		if t.Pats[0].Port == 0 {
			t.Pats[0].Port = 8443
		} else {
			t.Pats[0].Port = 0
		}
		return true
	})
	add(func(t *Sem) bool {
		if t.Any || t.Cred || t.Pna != "none" {
			return false
		}
		t.Any = true
		return true
	})
	return out
}

// lookAlikes derives INVALID configurations that differ from an accepted one as little as possible (a cache or an equality
// test with an ambiguous key would confuse them with it).
func lookAlikes(base *cors.Config) []*cors.Config {
	var out []*cors.Config
	mk := func(f func(c *cors.Config) bool) {
		c := cloneConfig(base)
		if f(c) {
			out = append(out, c)
		}
	}
	glue := func(l []string) ([]string, bool) {
		if len(l) < 2 {
			return nil, false
		}
		return append([]string{l[0] + "," + l[1]}, l[2:]...), true
	}
	mk(func(c *cors.Config) (ok bool) { c.Methods, ok = glue(c.Methods); return })
	mk(func(c *cors.Config) (ok bool) { c.RequestHeaders, ok = glue(c.RequestHeaders); return })
	mk(func(c *cors.Config) (ok bool) { c.ResponseHeaders, ok = glue(c.ResponseHeaders); return })
	mk(func(c *cors.Config) (ok bool) { c.Origins, ok = glue(c.Origins); return })
	mk(func(c *cors.Config) bool { c.Origins = append(c.Origins, c.Origins[0]+"/"); return true })
	mk(func(c *cors.Config) bool { c.Origins[0] = c.Origins[0] + " "; return true })
	mk(func(c *cors.Config) bool { c.MaxAgeInSeconds = 86401; return true })
	mk(func(c *cors.Config) bool { c.PreflightSuccessStatus = 300; return true })
	mk(func(c *cors.Config) bool {
		if len(c.Methods) == 0 {
			return false
		}
		c.Methods[len(c.Methods)-1] += " "
		return true
	})
	return out
}

// buildVia returns a middleware configured with cfg and debug mode OFF, reached in one of the ways an application may get there;
// by the documentation all of them are equivalent to NewMiddleware(cfg). nil if cfg is rejected.
func buildVia(cfg cors.Config, k int) (res *cors.Middleware) {
	defer func() {
		if p := recover(); p != nil {
			res = nil // a panic inside the library is C17's business
		}
	}()
	other := cors.Config{Origins: []string{"https://somewhere-else.example"}, RequestHeaders: []string{"x-other"}, Methods: []string{"PATCH"}}
	var m *cors.Middleware
	var err error
	switch k % 6 {
	case 0:
		m, err = cors.NewMiddleware(cfg)
	case 1: // zero value, wrapped before being configured
		m = new(cors.Middleware)
		wrapEarly(m)
		err = m.Reconfigure(cloneConfig(&cfg))
	case 2: // debug on under another configuration, passthrough round trip, then the configuration
		m, _ = cors.NewMiddleware(other)
		m.SetDebug(true)
		m.Reconfigure(nil)
		err = m.Reconfigure(cloneConfig(&cfg))
	case 3: // debug switched on and off again
		m, err = cors.NewMiddleware(cfg)
		if err == nil {
			m.SetDebug(true)
			m.SetDebug(false)
		}
	case 4: // from another configuration with debug on, switched off afterwards; early-wrapped handlers
		m, _ = cors.NewMiddleware(other)
		wrapEarly(m)
		m.SetDebug(true)
		err = m.Reconfigure(cloneConfig(&cfg))
		m.SetDebug(false)
	default: // a rejected Reconfigure in between; SetDebug(true) while passthrough (a no-op)
		m = new(cors.Middleware)
		m.SetDebug(true)
		bad := cors.Config{Origins: []string{"https://x.example"}, MaxAgeInSeconds: -9}
		m.Reconfigure(&bad)
		m.SetDebug(true)
		err = m.Reconfigure(cloneConfig(&cfg))
	}
	if err != nil {
		return nil
	}
	return m
}

func scribbleHeader(h http.Header, with string) {
	for _, v := range h {
		scribble(v, with)
	}
}

// mutatingServe serves every request of the suite with a wrapped handler that overwrites, in
// place, every request- and response-header slice it can reach.
func (lr *lifeRun) mutatingServe(id string, with string) {
	m := lr.mws[id]
	h := handlerFor(m, http.HandlerFunc(func(w http.ResponseWriter, r *http.Request) {
		scribbleHeader(w.Header(), with)
		scribbleHeader(r.Header, with)
		w.WriteHeader(200)
	}))
	for _, rs := range lr.suite {
		hd := http.Header{}
		for k, v := range rs.H {
			hd[k] = append([]string(nil), v...)
		}
		w := newRec()
		func() {
			defer func() {
				if p := recover(); p != nil {
					lr.t.emit(map[string]any{"ev": "Panic", "what": fmt.Sprint(p), "where": "mutatingServe"})
				}
			}()
			h.ServeHTTP(w, newReq(rs.Method, hd))
		}()
	}
	lr.t.emit(map[string]any{"ev": "Stutter", "what": "mutating handler served the suite on " + id})
}

// ---------------------------------------------------------------- the "life" command

func cmdLife(args []string) {
	fs := flag.NewFlagSet("life", flag.ExitOnError)
	trace := fs.String("trace", "", "NDJSON trace to write")
	mode := fs.String("mode", "hist", "hist | multi | rejtwin | nearpairs | reject | roundtrip | mutate")
	cases := fs.String("cases", "", "histories written by TLC (mode hist)")
	n := fs.Int("n", 200, "number of cases (random modes)")
	stride := fs.Int("stride", 1, "mode hist: replay every stride-th history (offset by seed)")
	out := fs.String("out", "", "summary JSON")
	fs.Parse(args)
	rng := newRand()
	t := newTracer(*trace)
	defer t.close()
	t.autoflush = true
	lr := &lifeRun{t: t}
	ncases := 0
	var samples []any
	t.watchdog(20*time.Second, func(h map[string]any) {
		h["mw"] = "?"
		t.emit(h)
		lr.onHang()
	})
	lr.onHang = func() {
		// the stuck goroutine holds the middleware's lock: nothing more can be done with it; what was recorded is judged
		writeJSON(*out, map[string]any{"cases": ncases, "events": t.n, "probes_per_observation": len(lr.suite), "samples": samples, "hung": true})
		t.close()
		os.Exit(0)
	}
	A, B := semA(), semB()
	cfgA, cfgB := plainConfig(A), plainConfig(B)
	abSuite := smallSuite([]Sem{A, B})
	invalid := invalidConfigs()
	lr.useWitness = *mode == "mutate" || *mode == "multi"
	switch *mode {
	case "hist":
		idx := 0
		off := int(seedFromEnv()) % *stride
		readCases(*cases, func(line []byte) {
			idx++
			if (idx+off)%*stride != 0 {
				return
			}
			var hist []struct {
				Op struct {
					K string `json:"k"`
					C string `json:"c"`
					B bool   `json:"b"`
				} `json:"op"`
			}
			if err := json.Unmarshal(line, &hist); err != nil {
				fatal("bad history: %v", err)
			}
			lr.resetKeep(abSuite)
			ncases++
			lr.inHandler = ncases%2 == 0 // every other history makes its calls from inside a wrapped handler
			var ops []string
			for _, st := range hist {
				switch st.Op.K {
				case "new":
					lr.newMW("m", "A", cfgA)
				case "zero":
					lr.zero("m")
				case "setdebug":
					lr.setDebug("m", st.Op.B)
				case "reconf":
					switch st.Op.C {
					case "nil":
						lr.reconf("m", "nil", nil)
					case "A":
						c := cfgA
						lr.reconf("m", "A", &c)
					case "B":
						c := cfgB
						lr.reconf("m", "B", &c)
					case "invalid":
						c := invalid[rng.Intn(len(invalid))].Cfg
						lr.reconf("m", "invalid", &c)
					}
				}
				ops = append(ops, st.Op.K+":"+st.Op.C+fmt.Sprint(st.Op.B))
				lr.observe("m")
			}
			if len(samples) < 3 {
				samples = append(samples, ops)
			}
		})
	case "multi":
		// G: every bounded history over two middlewares written by MultiMC.tla (New / Reconfigure / SetDebug interleaved
		// with caller-side mutation of arguments and results and with mutating handlers); both middlewares are observed
		// after every step.
		idx := 0
		off := int(seedFromEnv()) % *stride
		readCases(*cases, func(line []byte) {
			idx++
			if (idx+off)%*stride != 0 {
				return
			}
			var hist []struct {
				K string `json:"k"`
				I int    `json:"i"`
				C string `json:"c"`
				B bool   `json:"b"`
			}
			if err := json.Unmarshal(line, &hist); err != nil {
				fatal("bad history: %v", err)
			}
			lr.resetKeep(abSuite)
			ncases++
			args := map[string]*cors.Config{} // the Config last handed to middleware i, still owned by the caller
			argLabel := map[string]string{}
			pick := func(c string) *cors.Config {
				switch c {
				case "A":
					return cloneConfig(&cfgA)
				case "B":
					return cloneConfig(&cfgB)
				case "invalid":
					return cloneConfig(&invalid[rng.Intn(len(invalid))].Cfg)
				}
				return nil
			}
			words := scribbleWords
			var ops []string
			for _, st := range hist {
				id := fmt.Sprintf("m%d", st.I)
				with := words[rng.Intn(len(words))]
				switch st.K {
				case "new":
					a := pick(st.C)
					args[id], argLabel[id] = a, st.C
					lr.newMW(id, st.C, *a)
				case "setdebug":
					lr.setDebug(id, st.B)
				case "reconf":
					a := pick(st.C)
					if a != nil {
						args[id], argLabel[id] = a, st.C
					}
					lr.reconf(id, st.C, a)
				case "mutarg":
					if a := args[id]; a != nil {
						scribbleConfig(a, with)
					}
					t.emit(map[string]any{"ev": "Stutter", "what": "scribbled over the Config last passed to " + id})
				case "mutresult":
					if c := lr.mws[id].Config(); c != nil {
						scribbleConfig(c, with)
					}
					t.emit(map[string]any{"ev": "Stutter", "what": "scribbled over " + id + ".Config()"})
				case "servemut":
					lr.mutatingServe(id, with)
				case "reuse":
					// the caller edits the Config it passed before IN PLACE (element write, same slices) and passes the very
					// same value again; afterwards the middleware must allow the origin written into it (Reused events)
					a := args[id]
					if a == nil || len(a.Origins) == 0 {
						fatal("reuse without a retained argument")
					}
					a.Origins[0] = "https://reused.example"
					label := argLabel[id]
					if !strings.HasSuffix(label, "R") {
						label += "R"
					}
					argLabel[id] = label
					lr.reconf(id, label, a)
				}
				ops = append(ops, fmt.Sprintf("%s(%s,%s%v)", st.K, id, st.C, st.B))
				lr.observe("m1")
				lr.observe("m2")
				for _, x := range []string{"m1", "m2"} {
					if m := lr.mws[x]; m != nil {
						act, pf := originAllowedByMiddleware(handlerFor(m, okHandler), "https://reused.example")
						t.emit(map[string]any{"ev": "Reused", "mw": x, "allowed": act && pf, "either": act || pf})
					}
				}
			}
			if len(samples) < 3 {
				samples = append(samples, ops)
			}
		})
	case "rejtwin":
		// C08 as a twin experiment over TLC's history universe: m performs the history, its twin w performs the history
		// WITHOUT the rejected Reconfigure calls; after every operation the two must be indistinguishable.
		idx := 0
		readCases(*cases, func(line []byte) {
			idx++
			var hist []struct {
				Op struct {
					K string `json:"k"`
					C string `json:"c"`
					B bool   `json:"b"`
				} `json:"op"`
			}
			if err := json.Unmarshal(line, &hist); err != nil {
				fatal("bad history: %v", err)
			}
			has := false
			for _, st := range hist {
				has = has || (st.Op.K == "reconf" && st.Op.C == "invalid")
			}
			if !has {
				return
			}
			lr.resetKeep(abSuite)
			ncases++
			var ops []string
			for _, st := range hist {
				for _, id := range []string{"m", "w"} {
					switch st.Op.K {
					case "new":
						lr.newMW(id, "A", cfgA)
					case "zero":
						lr.zero(id)
					case "setdebug":
						lr.setDebug(id, st.Op.B)
					case "reconf":
						switch st.Op.C {
						case "nil":
							lr.reconf(id, "nil", nil)
						case "A":
							c := cfgA
							lr.reconf(id, "A", &c)
						case "B":
							c := cfgB
							lr.reconf(id, "B", &c)
						case "invalid":
							if id == "m" {
								c := invalid[(idx+len(ops))%len(invalid)].Cfg
								lr.reconf(id, "invalid", &c)
							}
						}
					}
				}
				ops = append(ops, st.Op.K+":"+st.Op.C+fmt.Sprint(st.Op.B))
				lr.pair("m", "w")
			}
			if len(samples) < 3 {
				samples = append(samples, ops)
			}
		})
	case "nearpairs":
		// Reconfigure between configurations that differ in ONE aspect (both directions): afterwards the middleware must answer
		// like a middleware built from the new configuration, and render the same Config(). (A reconfiguration that is skipped
		// because the two "look equal", or that keeps part of the old state, shows here.)
		bases := append([]Sem{A, B}, fixedSems(rng)...) // every kind of configuration first, then seeded ones
		for bi := 0; bi < *n; bi++ {
			var s Sem
			if bi < len(bases) {
				s = bases[bi]
			} else {
				s = randSem(rng)
			}
			if len(s.Pats) > 8 {
				continue // the large-list configuration has its own checks; its probe suite would dominate the run time
			}
			for ti, tw := range nearTweaks(s) {
				for dir := 0; dir < 2; dir++ {
					from, to := s, tw
					if dir == 1 {
						from, to = tw, s
					}
					cf, ct := from.spell(rng), to.spell(rng)
					if _, err := tryNew(*cf); err != nil {
						continue
					}
					if _, err := tryNew(*ct); err != nil {
						continue
					}
					ncases++
					suite := probeSuite([]Sem{from, to})
					if len(suite) > 400 { // an evenly spread sample
						var sp []reqSpec
						for q := 0; q < 400; q++ {
							sp = append(sp, suite[q*len(suite)/400])
						}
						suite = sp
					}
					lr.reset(suite)
					lr.ab = false
					t.emit(map[string]any{"ev": "Note", "tweak": ti, "from": cfgJSON(cf), "to": cfgJSON(ct)})
					lr.newMW("m", "c0", *cf)
					if rng.Intn(2) == 0 {
						lr.observe("m") // having served requests under the old configuration
					}
					if p := lr.mws["m"].Config(); p != nil && (ti+dir)%2 == 0 {
						*p = *cloneConfig(ct) // read - edit in place - write back
						lr.reconf("m", "c1", p)
					} else {
						lr.reconf("m", "c1", ct)
					}
					lr.newMW("f", "c1", *cloneConfig(ct))
					lr.observe("f")
					lr.observe("m")
					lr.setDebug("m", true)
					lr.setDebug("f", true)
					lr.observe("f")
					lr.observe("m")
				}
			}
		}
	case "reject":
		// prior states: passthrough (zero value, Reconfigure(nil)), A/B x debug, random accepted configurations
		type prior struct {
			id  string
			cfg *cors.Config
			dbg bool
		}
		// (a CONFIGURED prior comes first: damage to shared storage is often done only once per process - by the first rejected
		// configuration that triggers it - and shows on middlewares that were built before it)
		priors := []prior{{"A", &cfgA, false}, {"nil", nil, false}, {"A", &cfgA, true}, {"B", &cfgB, false}, {"B", &cfgB, true}}
		var rsems []Sem
		for i := 0; i < *n; i++ {
			// (not validated here: nothing is built before the first prior has been observed; a random configuration that turns
			// out to be unacceptable is skipped when its turn comes)
			s := randSem(rng)
			c := s.spell(rng)
			rsems = append(rsems, s)
			priors = append(priors, prior{fmt.Sprintf("R%d", i), c, rng.Intn(2) == 0})
		}
		suite := probeSuite(append([]Sem{A, B}, rsems...))
		if len(suite) > 900 {
			suite = suite[:900]
		}
		for _, p := range priors {
			if p.cfg != nil && strings.HasPrefix(p.id, "R") {
				if _, err := tryNew(*p.cfg); err != nil {
					continue
				}
			}
			lr.reset(suite)
			ncases++
			if p.cfg == nil {
				lr.zero("m")
			} else {
				own := cloneConfig(p.cfg) // the caller's own Config value (spare capacity behind every list)
				lr.newMW("m", p.id, *own)
				lr.setDebug("m", p.dbg)
				lr.observe("m")
				// the caller KEEPS USING that value: appends an entry that sorts first to every list (it fits the spare
				// capacity, so the backing arrays stay the same), makes it invalid, and passes it to Reconfigure
				own.Methods = append(own.Methods, "AAA")
				own.RequestHeaders = append(own.RequestHeaders, "a-first")
				own.ResponseHeaders = append(own.ResponseHeaders, "a-first")
				own.Origins = append(own.Origins, "aaa://first.example")
				own.MaxAgeInSeconds = 86401
				lr.reconf("m", "invalid", own)
				lr.observe("m")
				own.MaxAgeInSeconds, own.PreflightSuccessStatus = p.cfg.MaxAgeInSeconds, 199
				lr.reconf("m", "invalid", own)
			}
			lr.observe("m")
			for _, ic := range invalid {
				c := ic.Cfg
				lr.reconf("m", "invalid", &c)
				lr.observe("m")
			}
			// invalid LOOK-ALIKES of configurations this process has accepted (the current one, A, B): the same values with two
			// list entries glued by a comma, one entry re-spelled invalidly, or one scalar just out of range
			bases := []*cors.Config{&cfgA, &cfgB}
			if p.cfg != nil {
				bases = append(bases, p.cfg)
			}
			for _, base := range bases {
				for _, c := range lookAlikes(base) {
					lr.reconf("m", "invalid", c)
					lr.observe("m")
				}
			}
			// invalid configurations whose ORIGINS are many and valid (several schemes on one host, custom schemes, ports,
			// wildcards, IP literals): building their tree before rejecting them must not touch anything shared
			for q := 0; q < 4; q++ {
				rs := randSem(rng)
				rs.Any = false
				rs.Pats = append(family(rng, ipPatterns(rng, nil)), cPattern{Scheme: "http", Host: "localhost"}, cPattern{Scheme: "capacitor", Host: "localhost"},
					cPattern{Scheme: "https", Host: "a.example"}, cPattern{Scheme: "connector", Host: "a.example", Port: 7}, cPattern{Scheme: "http", Host: "b.example", Port: 8080},
					cPattern{Scheme: "zzz", Host: "b.example"}, cPattern{Scheme: "https", Wild: true, Host: "b.example", Port: anyPort}, cPattern{Scheme: "a+a", Wild: true, Host: "b.example"})
				c := rs.spell(rng)
				if q%2 == 0 { // as listed (http before the custom scheme), not shuffled
					c.Origins = nil
					for _, pt := range rs.Pats {
						c.Origins = append(c.Origins, pt.String())
					}
				}
				c.DangerouslyTolerateInsecureOrigins = true
				switch q % 3 {
				case 0:
					c.MaxAgeInSeconds = 86401
				case 1:
					c.ResponseHeaders = append(c.ResponseHeaders, "Set-Cookie")
				default:
					c.Methods = append(c.Methods, "TRACE")
				}
				lr.reconf("m", "invalid", c)
				lr.observe("m")
			}
			if p.cfg == nil { // also the other passthrough form
				lr.newMW("m2", "A", cfgA)
				lr.reconf("m2", "nil", nil)
				lr.observe("m2")
				for _, ic := range invalid {
					c := ic.Cfg
					lr.reconf("m2", "invalid", &c)
					lr.observe("m2")
				}
			}
			if len(samples) < 2 {
				samples = append(samples, map[string]any{"prior": p.id, "debug": p.dbg, "invalid": invalid[ncases%len(invalid)].Label})
			}
		}
	case "roundtrip":
		for ncases < *n {
			var s Sem
			switch ncases {
			case 0:
				s = A
			case 1:
				s = B
			case 2, 3, 4, 5, 6, 7, 8, 9, 10, 11, 12, 13, 14, 15, 16, 17, 18, 19, 20, 21, 22, 23, 24, 25:
				// a deterministic sweep of the scalar fields over their boundary values (both rendered by Config() through a
				// special case: 0 / -1 / default max-age, 0 / 204 status)
				s = A
				s.Meths = []string{"PUT"} // successful preflights exist, so that max-age and status show
				s.MaxAge = []int{-1, 0, 1, 2, 4, 5, 6, 10, 60, 600, 86399, 86400}[(ncases-2)%12]
				s.Status = []int{204, 200, 201, 203, 205, 206, 226, 250, 255, 256, 298, 299}[(ncases-2+(ncases-2)/12)%12]
			default:
				s = randSem(rng)
				if rng.Intn(3) == 0 { // IPv4 / bracketed IPv6 literal hosts, trailing dots
					s.Pats = ipPatterns(rng, s.Pats)
					if s.Any {
						s.Any = false
					}
				}
			}
			c := s.spell(rng)
			if _, err := tryNew(*c); err != nil {
				t.emit(map[string]any{"ev": "Rejected", "cfg": cfgJSON(c), "err": err.Error()})
				ncases++
				continue
			}
			ncases++
			lr.reset(probeSuite([]Sem{s}))
			t.emit(map[string]any{"ev": "Note", "cfg": cfgJSON(c)})
			lr.newMW("m1", "c", *c)
			lr.zero("m3")
			c3 := *c
			lr.reconf("m3", "c", &c3)
			// traffic first: Config() is read from middlewares that have served, behind a handler that edits in place whatever
			// header values it can reach (overwriting them, or extending the existing value "with one more name")
			lr.mutatingServe("m1", []string{"+, X-Request-Id", "x-evil", "*", "+,x-more", "https://evil.example"}[ncases%5])
			lr.mutatingServe("m3", []string{"*", "+, X-Request-Id", "true"}[ncases%3])
			// m2 built from m1.Config()
			var c1 cors.Config
			if p := lr.mws["m1"].Config(); p != nil {
				c1 = *p
			}
			m2, err := tryNew(c1)
			t.emit(map[string]any{"ev": "New", "mw": "m2", "cfg": "from", "from": "m1", "gen": 1, "ok": err == nil, "nilmw": m2 == nil,
				"err": fmt.Sprint(err), "rendered": cfgJSON(&c1)})
			if err == nil {
				lr.mws["m2"] = m2
			}
			ids := []string{"m1", "m2", "m3"}
			for _, dbg := range []bool{false, true} {
				for _, id := range ids {
					if lr.mws[id] != nil {
						lr.setDebug(id, dbg)
						lr.observe(id)
					}
				}
			}
			// Reconfigure(Config()) is a no-op, on every one of them, in debug mode on
			for _, id := range ids {
				if m := lr.mws[id]; m != nil {
					err := m.Reconfigure(m.Config())
					t.emit(map[string]any{"ev": "Reconf", "mw": id, "cfg": "self", "ok": err == nil, "err": fmt.Sprint(err)})
					lr.observe(id)
				}
			}
			// stability: m4 = New(m2.Config()) must render exactly what m2 renders
			if m2 != nil {
				c2 := *m2.Config()
				m4, err := tryNew(c2)
				t.emit(map[string]any{"ev": "New", "mw": "m4", "cfg": "from", "from": "m2", "gen": 2, "ok": err == nil, "nilmw": m4 == nil, "err": fmt.Sprint(err)})
				if err == nil {
					lr.mws["m4"] = m4
					lr.observe("m4")
				}
			}
			if len(samples) < 3 {
				samples = append(samples, cfgJSON(c))
			}
		}
	case "twins":
		for ncases < *n {
			s := randSem(rng)
			switch ncases {
			case 0: // anonymous allow-all with every list wildcarded (and Authorization next to each `*`)
				s = fixedSems(rng)[1]
			case 1: // discrete origins, `*` (+ Authorization) in both header lists, no credentials, no Private-Network Access
				s = Sem{Status: 204, Pna: "none", Pats: []cPattern{{Scheme: "https", Host: "example.com"}, {Scheme: "https", Wild: true, Host: "example.com", Port: anyPort}},
					Meths: []string{"PUT"}, HStar: true, HAuth: true, Expose: []string{"*"}, MaxAge: 30}
			case 2: // names beyond 255 bytes next to short ones, in every list that takes names (every order: the permutations below)
				long := reqHdrUniverse[len(reqHdrUniverse)-1]
				s = Sem{Status: 204, Pna: "none", Pats: []cPattern{{Scheme: "https", Host: "example.com"}}, Meths: []string{customMethods[len(customMethods)-1], "PUT"},
					HNames: []string{"a", long, "x-a"}, Expose: []string{long, "x-e"}}
				sort.Strings(s.Meths)
				sort.Strings(s.HNames)
				sort.Strings(s.Expose)
			}
			if ncases%3 == 1 && len(s.HNames) > 0 && !s.HStar && !(len(s.Expose) == 1 && s.Expose[0] == "*") {
				// a name listed in BOTH header lists (they are independent sets)
				for _, n := range s.HNames {
					if n != "authorization" && !slices.Contains(safelistedRespHdrs, n) && !slices.Contains(s.Expose, n) {
						s.Expose = append(s.Expose, n)
						break
					}
				}
				sort.Strings(s.Expose)
			}
			if ncases%5 == 0 { // more structure: a wildcard next to subdomain patterns of the same base
				s.Any = false
				s.Pats = family(rng, family(rng, nil))
				if len(s.Pats) > 4 {
					s.Pats = s.Pats[:4]
				}
			}
			c1 := s.spell(rng)
			if _, err := tryNew(*c1); err != nil {
				t.emit(map[string]any{"ev": "Rejected", "cfg": cfgJSON(c1), "err": err.Error()})
				ncases++
				continue
			}
			ncases++
			lr.reset(probeSuite([]Sem{s}))
			t.emit(map[string]any{"ev": "Note", "cfg": cfgJSON(c1)})
			twins := []*cors.Config{c1}
			// an independently spelled twin: other order, duplicates, letter case, method spelling, safelisted extras
			for k := 0; k < 2; k++ {
				c2 := s.spell(rng)
				c2.PreflightSuccessStatus, c2.DangerouslyTolerateInsecureOrigins = c1.PreflightSuccessStatus, c1.DangerouslyTolerateInsecureOrigins
				twins = append(twins, c2)
			}
			// every permutation of each list field (lists up to length 4; a sample beyond)
			perm := func(get func(*cors.Config) *[]string) {
				base := *get(c1)
				if len(base) < 2 {
					return
				}
				ps := permutations(len(base), 24, rng)
				for _, p := range ps {
					c := *c1
					c.Origins, c.Methods = append([]string(nil), c1.Origins...), append([]string(nil), c1.Methods...)
					c.RequestHeaders, c.ResponseHeaders = append([]string(nil), c1.RequestHeaders...), append([]string(nil), c1.ResponseHeaders...)
					l := make([]string, len(base))
					for i, j := range p {
						l[i] = base[j]
					}
					*get(&c) = l
					twins = append(twins, &c)
				}
			}
			perm(func(c *cors.Config) *[]string { return &c.Origins })
			perm(func(c *cors.Config) *[]string { return &c.Methods })
			perm(func(c *cors.Config) *[]string { return &c.RequestHeaders })
			perm(func(c *cors.Config) *[]string { return &c.ResponseHeaders })
			var ids []string
			for i, c := range twins {
				id := fmt.Sprintf("t%d", i)
				m, err := tryNew(*c)
				t.emit(map[string]any{"ev": "New", "mw": id, "cfg": "c", "ok": err == nil, "nilmw": m == nil, "twin": cfgJSON(c)})
				if err == nil {
					lr.mws[id] = m
					ids = append(ids, id)
				}
			}
			for _, dbg := range []bool{false, true} {
				for _, id := range ids {
					if dbg {
						lr.setDebug(id, true)
					}
					// Config() values of twins are deliberately not compared: observe responses only
					fp := fingerprint(lr.mws[id], lr.suite)
					t.emit(map[string]any{"ev": "Observe", "mw": id, "fp": fp, "cfgnil": false, "cfgfp": "twin-" + id})
				}
			}
			// Twins that differ only in REPETITION, installed with Reconfigure on middlewares that hold c1 (as Config() renders it) - whose lists have the
			// same length and contain every entry of theirs: a list whose last entry is replaced by a copy of its first one, and the
			// same list without that entry. However they come about (Reconfigure over c1, NewMiddleware), all four answer alike.
			for fi, get := range []func(*cors.Config) *[]string{
				func(c *cors.Config) *[]string { return &c.Origins }, func(c *cors.Config) *[]string { return &c.Methods },
				func(c *cors.Config) *[]string { return &c.RequestHeaders }, func(c *cors.Config) *[]string { return &c.ResponseHeaders }} {
				// (c1 in the form Config() renders it: what an application that reads, edits and writes back works with)
				nfm, err := tryNew(*c1)
				if err != nil || nfm == nil || nfm.Config() == nil {
					continue
				}
				c1 := nfm.Config()
				base := *get(c1)
				if len(base) < 2 || base[0] == base[len(base)-1] {
					continue
				}
				dup, ded := cloneConfig(c1), cloneConfig(c1)
				l := append([]string(nil), base...)
				l[len(l)-1] = l[0]
				*get(dup), *get(ded) = l, append([]string(nil), base[:len(base)-1]...)
				if _, err := tryNew(*dup); err != nil {
					continue
				}
				if _, err := tryNew(*ded); err != nil {
					continue
				}
				cid := fmt.Sprintf("d%d", fi)
				var rids []string
				for k, c := range []*cors.Config{dup, ded} {
					id := fmt.Sprintf("r%d%d", fi, k)
					lr.zero(id)
					lr.reconf(id, "c", cloneConfig(c1))
					lr.reconf(id, cid, cloneConfig(c))
					id2 := fmt.Sprintf("n%d%d", fi, k)
					lr.newMW(id2, cid, *cloneConfig(c))
					rids = append(rids, id, id2)
				}
				for _, dbg := range []bool{false, true} {
					for _, id := range rids {
						if lr.mws[id] == nil {
							continue
						}
						if dbg {
							lr.setDebug(id, true)
						}
						fp := fingerprint(lr.mws[id], lr.suite)
						t.emit(map[string]any{"ev": "Observe", "mw": id, "fp": fp, "cfgnil": false, "cfgfp": "twin-" + id})
					}
				}
			}
			if len(samples) < 3 {
				samples = append(samples, map[string]any{"original": cfgJSON(c1), "twin": cfgJSON(twins[1]), "twins": len(twins)})
			}
		}
	case "mutate":
		for ncases < *n {
			ncases++
			s1, s2 := A, B
			if ncases > 1 {
				s1, s2 = randSem(rng), randSem(rng)
			}
			c1, c2 := s1.spell(rng), s2.spell(rng)
			if _, err := tryNew(*c1); err != nil {
				continue
			}
			if _, err := tryNew(*c2); err != nil {
				continue
			}
			suite := probeSuite([]Sem{s1, s2})
			// a few requests aimed at every path on which the wrapped handler runs
			suite = append(suite, reqSpec{Method: "OPTIONS", H: http.Header{}}, reqSpec{Method: "OPTIONS", H: http.Header{hOrigin: {"https://a.example"}}})
			lr.reset(suite)
			arg1 := cloneConfig(c1)
			arg2 := cloneConfig(c2)
			arg3 := cloneConfig(c1)
			lr.newMW("m1", "c1", *arg1)
			lr.newMW("m2", "c2", *arg2)
			lr.zero("m3")
			lr.reconf("m3", "c1", arg3)
			all := []string{"m1", "m2", "m3"}
			obs := func() {
				for _, id := range all {
					lr.observe(id)
				}
			}
			obs() // reference observations, before any adversarial activity
			steps := []func(){
				func() { scribbleConfig(arg1, "https://evil.example"); t.emit(map[string]any{"ev": "Stutter", "what": "scribbled over the Config passed to NewMiddleware(m1)"}) },
				func() { scribbleConfig(arg3, "*"); t.emit(map[string]any{"ev": "Stutter", "what": "scribbled over the Config passed to Reconfigure(m3)"}) },
				func() {
					scribbleConfig(lr.mws["m1"].Config(), "*")
					scribbleConfig(lr.mws["m2"].Config(), "x-evil")
					t.emit(map[string]any{"ev": "Stutter", "what": "scribbled over Config() results"})
				},
				func() { lr.mutatingServe("m1", "evil") },
				func() { lr.mutatingServe("m2", "*") },
				func() { lr.mutatingServe("m3", "https://evil.example") },
				func() { lr.setDebug("m1", true); lr.mutatingServe("m1", "true") },
				func() { scribbleConfig(arg2, "null"); t.emit(map[string]any{"ev": "Stutter", "what": "scribbled over the Config passed to NewMiddleware(m2)"}) },
			}
			rng.Shuffle(len(steps), func(i, j int) { steps[i], steps[j] = steps[j], steps[i] })
			for _, st := range steps {
				st()
				obs()
			}
			// a middleware created AFTER the adversarial activity must behave like the reference too
			lr.newMW("m4", "c2", *cloneConfig(c2))
			lr.observe("m4")
			if len(samples) < 2 {
				samples = append(samples, map[string]any{"c1": cfgJSON(c1), "c2": cfgJSON(c2)})
			}
		}
	}
	t.emit(map[string]any{"ev": "Reset"}) // closes the last segment
	writeJSON(*out, map[string]any{"cases": ncases, "events": t.n, "probes_per_observation": len(lr.suite), "samples": samples})
}

func cloneConfig(c *cors.Config) *cors.Config {
	d := *c
	// leave spare capacity behind the elements: writes up to cap must not matter either
	grow := func(s []string) []string {
		if s == nil {
			return nil
		}
		t := make([]string, len(s), len(s)+3)
		copy(t, s)
		return t
	}
	d.Origins, d.Methods, d.RequestHeaders, d.ResponseHeaders = grow(c.Origins), grow(c.Methods), grow(c.RequestHeaders), grow(c.ResponseHeaders)
	return &d
}

var _ = sort.Strings

// permutations returns all permutations of 0..n-1 when there are at most max of them, else max random ones.
func permutations(n, max int, rng *rand.Rand) [][]int {
	total := 1
	for i := 2; i <= n; i++ {
		total *= i
		if total > max {
			break
		}
	}
	var out [][]int
	if total <= max {
		var rec func(p []int, used []bool)
		rec = func(p []int, used []bool) {
			if len(p) == n {
				out = append(out, append([]int(nil), p...))
				return
			}
			for i := 0; i < n; i++ {
				if !used[i] {
					used[i] = true
					rec(append(p, i), used)
					used[i] = false
				}
			}
		}
		rec(nil, make([]bool, n))
		return out
	}
	for k := 0; k < max; k++ {
		out = append(out, rng.Perm(n))
	}
	return out
}
