package main

import (
	"fmt"
	"os"
	"runtime/debug"
)

var commands = map[string]func([]string){
	"c01gen":  cmdC01Gen,
	"c01rand": cmdC01Rand,
	"c03gen":  cmdC03Gen,
	"c02":     cmdC02,
	"c02gen":  cmdC02Gen,
	"serve":   cmdServe,
	"life":    cmdLife,
	"nf":      cmdNF,
	"c07conc": cmdC07Conc,
	"c07":     cmdC07,
	"cfgs":    cmdCfgs,
	"c14gen":  cmdC14Gen,
	"c19":     cmdC19,
	"c13":     cmdC13,
	"c13gen":  cmdC13Gen,
	"c17x":    cmdC17X,
	"c18":     cmdC18,
	"c14rand": cmdC14Rand,
	"c07stress": cmdC07Stress,
}

func main() {
	// a runaway recursion in the code under test must end quickly as "fatal error: stack overflow", not as an OOM kill
	debug.SetMaxStack(32 << 20)
	if len(os.Args) < 2 {
		fmt.Fprintln(os.Stderr, "usage: driver <command> [flags]")
		os.Exit(2)
	}
	f, ok := commands[os.Args[1]]
	if !ok {
		fmt.Fprintf(os.Stderr, "driver: unknown command %q\n", os.Args[1])
		os.Exit(2)
	}
	f(os.Args[2:])
}
