SPECIFICATION Spec
CONSTANTS
  EBug = "none"
  MaxNodes = 7
  DumpCases = TRUE
INVARIANT Correct
CONSTRAINT Dump
CHECK_DEADLOCK FALSE
