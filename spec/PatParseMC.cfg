SPECIFICATION Spec
CONSTANTS
  PBug = "none"
  MaxTail = 5
  DumpCases = FALSE
INVARIANT GrammarMeansScanner
CONSTRAINT Dump
CHECK_DEADLOCK FALSE
