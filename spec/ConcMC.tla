------------------------------- MODULE ConcMC -------------------------------
(***************************************************************************)
(* Generator (binding G for the method-against-method races of C07, C08    *)
(* and C09): every scenario                                                *)
(*     initial state  x  N concurrent calls  x  a sequential epilogue      *)
(* over the calls SetDebug(t|f), Reconfigure(nil|A|B|invalid), Config(),   *)
(* together with the set of final states the documented state machine      *)
(* allows: the results of running the concurrent calls in SOME order       *)
(* (linearisability), followed by the epilogue.  The epilogue              *)
(* `Reconfigure(B)` makes a debug flag that was wrongly left on in a       *)
(* passthrough middleware observable.                                      *)
(* The driver executes every scenario under every schedule of the gate-to- *)
(* gate segments of the real goroutines (mutex acquire / release), then    *)
(* the epilogue and six probing requests; TraceMiddleware.tla validates    *)
(* each execution.  The invariant checked here is the model-level claim    *)
(* that makes the exercise meaningful: whatever the order, a passthrough   *)
(* middleware ends with debug off, and a rejected call is a no-op in every *)
(* linearisation.                                                          *)
(***************************************************************************)
EXTENDS Naturals, Sequences, FiniteSets, TLC, Json, CSV, IOUtils, MwState

CONSTANTS Width,       \* number of concurrent calls (2 or 3)
          DumpCases

Ops == { [k |-> "setdebug", b |-> TRUE], [k |-> "setdebug", b |-> FALSE],
         [k |-> "reconf", c |-> "nil"], [k |-> "reconf", c |-> "A"], [k |-> "reconf", c |-> "B"],
         [k |-> "reconf", c |-> "invalid"], [k |-> "config"] }
Inits == { ZeroState, NewState("A"), SetDebugState(NewState("A"), TRUE), NewState("B"), SetDebugState(NewState("B"), TRUE) }
Epilogues == { <<>>, << [k |-> "reconf", c |-> "B"] >>, << [k |-> "reconf", c |-> "A"], [k |-> "setdebug", b |-> FALSE] >> }

Apply(s, o) == IF o.k = "setdebug" THEN SetDebugState(s, o.b)
               ELSE IF o.k = "config" \/ o.c = "invalid" THEN s
               ELSE CommitState(s, o.c)
RECURSIVE ApplyAll(_, _)
ApplyAll(s, os) == IF os = <<>> THEN s ELSE ApplyAll(Apply(s, Head(os)), Tail(os))

Perms(n) == { f \in [1..n -> 1..n] : \A i, j \in 1..n : i # j => f[i] # f[j] }
Allowed(s0, par, epi) == { ApplyAll(ApplyAll(s0, [i \in 1..Len(par) |-> par[p[i]]]), epi) : p \in Perms(Len(par)) }

VARIABLES init, par, epi
vars == <<init, par, epi>>
Writes(o) == o.k # "config"
Init == /\ init \in Inits /\ epi \in Epilogues
        /\ par \in [1..Width -> Ops]
        /\ \E i \in 1..Width : Writes(par[i])                       \* at least one call changes something
Next == UNCHANGED vars
Spec == Init /\ [][Next]_vars

PassthroughHasDebugOff == \A s \in Allowed(init, par, epi) : s.icfg = Nil => ~s.debug
RejectedIsNoOp == LET without == SelectSeq(par, LAMBDA o : ~(o.k = "reconf" /\ o.c = "invalid"))
                  IN Len(without) > 0 => Allowed(init, par, epi) = Allowed(init, without, epi)
SetToSeq(S) == CHOOSE f \in [1..Cardinality(S) -> S] : \A i, j \in 1..Cardinality(S) : i # j => f[i] # f[j]
Dump == IF DumpCases
          THEN CSVWrite("%1$s", <<ToJson([init |-> init, par |-> par, epi |-> epi,
                                         allowed |-> SetToSeq(Allowed(init, par, epi))])>>, IOEnv.OUT_FILE)
          ELSE TRUE
=============================================================================
