-------------------------------- MODULE Cors --------------------------------
(***************************************************************************)
(* The request-handling function of the middleware (middleware.go: Wrap,   *)
(* handleNonCORS, handleCORSPreflight, handleCORSActual, processXXX),      *)
(* modelled step by step, as a pure function                               *)
(*                                                                         *)
(*     Respond(sem, debug, request, pre-set response headers)              *)
(*        |-> [handled, status, hdrs]                                      *)
(*                                                                         *)
(* over ABSTRACT requests.  `sem` is the semantic configuration (what an   *)
(* accepted Config means; Config.tla maps Configs to it):                  *)
(*   [ pass  : BOOLEAN          passthrough (nil configuration)            *)
(*     any   : BOOLEAN          Origins contains "*" (tree empty)          *)
(*     cred  : BOOLEAN                                                     *)
(*     mAny  : BOOLEAN, meths : SUBSET STRING   (non-safelisted methods)   *)
(*     hStar : BOOLEAN, hAuth : BOOLEAN, hNames : SUBSET STRING            *)
(*             (hNames: lower-case discrete names incl. "authorization"    *)
(*              when it is listed and not swallowed by a credentialed star) *)
(*     maxAge: Int              (-1 | 0 | 1..86400)                        *)
(*     expose: Seq(STRING)      ACEH value as rendered ("" = none)         *)
(*     status: 200..299                                                    *)
(*     pna   : {"none","cors","nocors"} ]                                  *)
(*                                                                         *)
(* An abstract request is                                                  *)
(*   [ method : STRING,                                                    *)
(*     origin : Seq(OriginToken)   field lines of Origin (<<>> = absent)   *)
(*     acrm   : Seq(STRING)        field lines of ACRM                     *)
(*     acrpn  : Seq(STRING)        field lines of ACRPN                    *)
(*     acrh   : [present : BOOLEAN, lines : Seq(Seq(Elem))]                *)
(*               Elem == [name : STRING ("" = empty element), l, r : Nat]  *)
(*               (l / r = bytes of optional whitespace on each side)       *)
(*   ]                                                                     *)
(* OriginToken == [txt : STRING, wf : BOOLEAN, parse : BOOLEAN,            *)
(*                 member : BOOLEAN]                                       *)
(*   wf     - txt is the serialization of a tuple origin (strict reading)  *)
(*   parse  - the lenient request-side scanner accepts txt                 *)
(*   member - the configured patterns denote the parsed origin             *)
(* Response headers are functions from header names to sequences of field  *)
(* lines.                                                                  *)
(* The constant CBug selects negative twins (see CorsMC.tla).              *)
(***************************************************************************)
EXTENDS Integers, Sequences, FiniteSets, TLC

CONSTANTS CBug,        \* selects a negative twin; "none" = the code as it is
          NameOrder,   \* all request-header names of the universe, as a lexicographically sorted sequence
          AcrhOK(_, _),   \* AcrhOK(s, r): are the ACRH field lines of r approved for the discrete names of s?
                          \*   (element level in CorsMC: ApprovedElems; byte level in TraceConform: Acrh!Approved)
          AcrhEcho(_)     \* AcrhEcho(r): the request's ACRH field lines as reflected in Access-Control-Allow-Headers

Safelisted == {"GET", "HEAD", "POST"}
AUTH == "authorization"
VaryOptions == "Access-Control-Request-Headers, Access-Control-Request-Method, Access-Control-Request-Private-Network, Origin"

MaxOWS   == 1
MaxEmpty == 16

NoHdrs == [x \in {} |-> <<>>]
Get(h, k) == IF k \in DOMAIN h THEN h[k] ELSE <<>>
Set(h, k, vs) == [x \in DOMAIN h \cup {k} |-> IF x = k THEN vs ELSE h[x]]
Add(h, k, v) == Set(h, k, Get(h, k) \o <<v>>)
Merge(h, buf) == [x \in DOMAIN h \cup DOMAIN buf |-> IF x \in DOMAIN buf THEN buf[x] ELSE h[x]]   \* maps.Copy

(***************************************************************************)
(* Approval of an ACRH list at element level (byte level: Acrh.tla).       *)
(***************************************************************************)
Flatten(lines) ==
  LET RECURSIVE F(_)
      F(i) == IF i > Len(lines) THEN <<>> ELSE lines[i] \o F(i + 1)
  IN F(1)

StrictlyIncreasingIn(order, names) ==      \* order: the sorted sequence of allowed names
  LET pos(n) == CHOOSE i \in 1..Len(order) : order[i] = n
  IN \A i \in 1..(Len(names) - 1) : pos(names[i]) < pos(names[i + 1])

ApprovedElems(order, lines) ==
  LET es    == Flatten(lines)
      names == SelectSeq(es, LAMBDA e : e.name # "")
  IN /\ \A i \in 1..Len(es) : es[i].l <= MaxOWS /\ es[i].r <= MaxOWS
     /\ Cardinality({i \in 1..Len(es) : es[i].name = ""}) <= MaxEmpty
     /\ \A i \in 1..Len(names) : \E j \in 1..Len(order) : order[j] = names[i].name
     /\ StrictlyIncreasingIn(order, [i \in 1..Len(names) |-> names[i].name])

(***************************************************************************)
(* The four preflight steps; each returns [ok, buf].                       *)
(***************************************************************************)
OriginStep(s, r, buf) ==
  LET o == r.origin[1] IN
  IF ~o.parse THEN [ok |-> FALSE, buf |-> buf]
  ELSE IF ~s.cred /\ s.any THEN [ok |-> TRUE, buf |-> Set(buf, "ACAO", <<"*">>)]
  ELSE IF ~(o.member) THEN [ok |-> FALSE, buf |-> buf]
  ELSE [ok |-> TRUE,
        buf |-> LET b1 == Set(buf, "ACAO", <<IF CBug = "echoLast" THEN r.origin[Len(r.origin)].txt ELSE o.txt>>)
                IN IF s.cred THEN Set(b1, "ACAC", <<"true">>) ELSE b1]

PnaStep(s, r, buf) ==
  IF r.acrpn = <<>> \/ r.acrpn[1] # "true" THEN [ok |-> TRUE, buf |-> buf]
  ELSE IF s.pna # "none" THEN [ok |-> TRUE, buf |-> Set(buf, "ACAPN", <<"true">>)]
  ELSE [ok |-> FALSE, buf |-> buf]

MethodStep(s, r, buf) ==
  LET m == r.acrm[1] IN
  IF m \in Safelisted THEN [ok |-> TRUE, buf |-> buf]
  ELSE IF s.mAny /\ (~s.cred \/ CBug = "acamStarCred") THEN [ok |-> TRUE, buf |-> Set(buf, "ACAM", << <<"*">> >>)]
  ELSE IF s.mAny \/ m \in s.meths THEN [ok |-> TRUE, buf |-> Set(buf, "ACAM", << <<m>> >>)]
  ELSE [ok |-> FALSE, buf |-> buf]

\* ACAM / ACAH values are modelled as sequences of field lines, each line a sequence of tokens.
Sorted(S) == SelectSeq(NameOrder, LAMBDA n : n \in S)   \* sorted sequence of a set of names

EchoLines(r) == [i \in 1..Len(r.acrh.lines) |->
                   [j \in 1..Len(r.acrh.lines[i]) |-> r.acrh.lines[i][j].name]]

HeaderStep(s, r, dbg, buf) ==
  \* "no ACRH" = no field line (key absent or zero-length list). The unrepaired code tested map
  \* membership only (finding F5), which is the twin CBug = "f5".
  IF (IF CBug = "f5" THEN ~r.acrh.present ELSE r.acrh.lines = <<>>) THEN [ok |-> TRUE, buf |-> buf]
  ELSE IF s.hStar /\ ~s.cred
    THEN [ok |-> TRUE, buf |-> Set(buf, "ACAH", IF s.hAuth /\ CBug # "dropAuth" THEN << <<"*", AUTH>> >> ELSE << <<"*">> >>)]
  ELSE IF s.hStar /\ s.cred THEN [ok |-> TRUE, buf |-> Set(buf, "ACAH", AcrhEcho(r))]
  ELSE IF ~dbg
    THEN IF s.hNames # {} /\ AcrhOK(s, r)
           THEN [ok |-> TRUE, buf |-> Set(buf, "ACAH", AcrhEcho(r))]
           ELSE [ok |-> FALSE, buf |-> buf]
  ELSE IF s.hNames # {} THEN [ok |-> TRUE, buf |-> Set(buf, "ACAH", << Sorted(s.hNames) >>)]
  ELSE [ok |-> FALSE, buf |-> buf]

MaxAgeValue(s) == IF s.maxAge = -1 THEN <<"0">> ELSE IF s.maxAge = 0 THEN <<>> ELSE <<ToString(s.maxAge)>>

Preflight(s, dbg, r, pre) ==
  LET h0 == Add(pre, "Vary", VaryOptions)
      fail(buf, st) == [handled |-> TRUE, status |-> st,
                        hdrs |-> IF dbg \/ CBug = "leakOnFail" THEN Merge(h0, buf) ELSE h0]
      s1 == OriginStep(s, r, NoHdrs)
  IN IF ~s1.ok THEN fail(s1.buf, 403)
     ELSE LET s2 == PnaStep(s, r, s1.buf) IN
     IF ~s2.ok THEN fail(s2.buf, IF dbg THEN s.status ELSE 403)
     ELSE LET s3 == MethodStep(s, r, s2.buf) IN
     IF ~s3.ok THEN fail(s3.buf, IF dbg THEN s.status ELSE 403)
     ELSE LET s4 == HeaderStep(s, r, dbg, s3.buf) IN
     IF ~s4.ok THEN fail(s4.buf, IF dbg THEN s.status ELSE 403)
     ELSE LET h1 == Merge(h0, s4.buf)
              h2 == IF MaxAgeValue(s) # <<>> THEN Set(h1, "ACMA", MaxAgeValue(s)) ELSE h1
          IN [handled |-> TRUE, status |-> s.status, hdrs |-> h2]

WithExpose(s, h) == IF s.expose # "" THEN Set(h, "ACEH", <<s.expose>>) ELSE h

NonCors(s, isOptions, pre) ==
  LET h0 == IF isOptions THEN Add(pre, "Vary", VaryOptions) ELSE pre IN
  IF s.pna = "nocors" THEN h0
  ELSE IF ~s.any THEN (IF ~isOptions /\ CBug # "noVaryOrigin" THEN Add(h0, "Vary", "Origin") ELSE h0)
  ELSE WithExpose(s, Set(h0, "ACAO", <<"*">>))

Actual(s, r, isOptions, pre) ==
  IF s.pna = "nocors" THEN (IF isOptions THEN Add(pre, "Vary", VaryOptions) ELSE pre)
  ELSE LET h0 == IF isOptions THEN Add(pre, "Vary", VaryOptions)
                 ELSE IF ~s.any /\ CBug # "noVaryOrigin" THEN Add(pre, "Vary", "Origin") ELSE pre
           o  == r.origin[1]
       IN IF ~s.cred /\ s.any THEN WithExpose(s, Set(h0, "ACAO", <<"*">>))
          ELSE IF ~o.parse \/ ~o.member THEN h0
          ELSE LET h1 == Set(h0, "ACAO", <<o.txt>>)
                   h2 == IF s.cred THEN Set(h1, "ACAC", <<"true">>) ELSE h1
               IN WithExpose(s, h2)

IsPreflight(r) == r.method = "OPTIONS" /\ r.origin # <<>> /\ r.acrm # <<>>

Respond(s, dbg, r, pre) ==
  IF s.pass THEN [handled |-> FALSE, status |-> 0, hdrs |-> pre]
  ELSE IF r.origin = <<>> THEN [handled |-> FALSE, status |-> 0, hdrs |-> NonCors(s, r.method = "OPTIONS", pre)]
  ELSE IF IsPreflight(r) THEN Preflight(s, dbg, r, pre)
  ELSE [handled |-> FALSE, status |-> 0, hdrs |-> Actual(s, r, r.method = "OPTIONS", pre)]
=============================================================================
