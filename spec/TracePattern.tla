---------------------------- MODULE TracePattern ----------------------------
(***************************************************************************)
(* Trace specification for C13: every candidate of PatternMC.tla was built *)
(* byte for byte from its components and given to the REAL NewMiddleware   *)
(* as the only origin pattern; accepted wildcard-free patterns were then   *)
(* presented verbatim as Origin.  TLC re-evaluates Pattern!Valid / Judged  *)
(* on the logged components.                                               *)
(***************************************************************************)
EXTENDS Pattern, Json, IOUtils

Trace == ndJsonDeserialize(IOEnv.TRACE_FILE)
VARIABLES l, bad, stats
vars == <<l, bad, stats>>
\* The monitor is a deterministic chain, one state per consumed event: fingerprinting the position alone (cfg: VIEW TraceView)
\* keeps validation linear however large `bad`, the references or the block grow.
TraceView == l

Pat == /\ l <= Len(Trace) /\ Trace[l].ev = "Pat" /\ l' = l + 1
       /\ LET e == Trace[l]  c == e.c IN
          /\ bad' = (IF Judged(c) /\ Valid(c) /\ ~e.accepted THEN {<<l, "a pattern of the documented form was rejected">>} ELSE {})
                    \cup (IF Judged(c) /\ ~Valid(c) /\ e.accepted THEN {<<l, "a string carrying a documented defect was accepted">>} ELSE {})
                    \cup (IF Judged(c) /\ ~Valid(c) /\ ~e.accepted /\ (e.errtype # "UnacceptableOriginPatternError" \/ ~e.valueok)
                            THEN {<<l, "rejected, but not with an UnacceptableOriginPatternError naming the string">>} ELSE {})
                    \cup (IF MustSelfMatch(c) /\ e.accepted /\ (~e.self \/ ~e.selfpf)
                            THEN {<<l, "an accepted wildcard-free pattern presented verbatim as Origin is not allowed">>} ELSE {})
                    \* the same string listed next to valid entries (`*`, another origin), before or after them
                    \cup (IF \E i \in DOMAIN e.ctx : Judged(c) /\ Valid(c) /\ ~e.ctx[i].accepted
                            THEN {<<l, "a pattern of the documented form was rejected when listed next to valid entries">>} ELSE {})
                    \cup (IF \E i \in DOMAIN e.ctx : Judged(c) /\ ~Valid(c) /\ e.ctx[i].accepted
                            THEN {<<l, "a string carrying a documented defect was accepted when listed next to valid entries">>} ELSE {})
                    \cup (IF \E i \in DOMAIN e.ctx : Judged(c) /\ ~Valid(c) /\ ~e.ctx[i].accepted /\ ~e.ctx[i].named
                            THEN {<<l, "rejected next to valid entries, but no UnacceptableOriginPatternError names the string">>} ELSE {})
                    \cup (IF \E i \in DOMAIN e.ctx : MustSelfMatch(c) /\ e.ctx[i].accepted /\ ~e.ctx[i].self
                            THEN {<<l, "an accepted wildcard-free pattern, listed next to other entries, does not allow itself as Origin">>} ELSE {})
                    \* the same string in configurations that are unacceptable for reasons of their own (another field, the extra
                    \* configuration): every problem is reported
                    \cup (IF \E i \in DOMAIN e.octx : Judged(c) /\ ~Valid(c) /\ ~e.octx[i].accepted /\ ~e.octx[i].named /\ ~e.octx[i].panicked
                            THEN {<<l, "in a configuration with an unrelated problem, no UnacceptableOriginPatternError names the defective string">>} ELSE {})
                    \cup (IF \E i \in DOMAIN e.octx : Judged(c) /\ Valid(c) /\ e.octx[i].named
                            THEN {<<l, "in a configuration with an unrelated problem, a pattern of the documented form is reported as unacceptable">>} ELSE {})
                    \cup bad
          /\ stats' = [stats EXCEPT !.valid = @ + (IF Judged(c) /\ Valid(c) THEN 1 ELSE 0),
                                    !.invalid = @ + (IF Judged(c) /\ ~Valid(c) THEN 1 ELSE 0),
                                    !.grey = @ + (IF Judged(c) THEN 0 ELSE 1),
                                    !.selfmatched = @ + (IF MustSelfMatch(c) THEN 1 ELSE 0)]
Init == l = 1 /\ bad = {} /\ stats = [valid |-> 0, invalid |-> 0, grey |-> 0, selfmatched |-> 0]
Spec == Init /\ [][Pat]_vars
Final == (l = Len(Trace) + 1) =>
           JsonSerialize(IOEnv.RESULT_FILE, [bad |-> bad, consumed |-> l - 1, total |-> Len(Trace), stats |-> stats])
=============================================================================
