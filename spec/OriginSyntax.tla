---------------------------- MODULE OriginSyntax ----------------------------
(***************************************************************************)
(* SerializedOrigin(b): the REFERENCE reading of the bytes of an `Origin`  *)
(* header value as the serialization of a tuple origin,                    *)
(* scheme "://" host [ ":" port ], the way browsers emit it                *)
(* (https://html.spec.whatwg.org/#ascii-serialisation-of-an-origin).       *)
(* It is a strict, deterministic recogniser/decomposer and deliberately    *)
(* does NOT mirror the implementation's lenient scanner (origins.Parse):   *)
(*   scheme : a-z followed by a-z 0-9 + - . (and _ : undocumented grey     *)
(*            zone, accepted so that it can never cause an alarm)          *)
(*   host   : either "[" hex digits / ":" / "." with at least two colons   *)
(*            "]"  (IPv6), or a non-empty run of bytes that are printable  *)
(*            ASCII, not upper-case and not forbidden host code points     *)
(*            (permissive like the URL standard: permissiveness can only   *)
(*            suppress alarms, never create one)                           *)
(*   port   : 1-65535, no leading zero, at most 5 digits                   *)
(* Result: [ok, scheme, host, port] with scheme/host as byte sequences,    *)
(* host in serialized form (IPv6 keeps its brackets), port 0 when absent.  *)
(***************************************************************************)
EXTENDS Naturals, Sequences

LOCAL COLON == 58
LOCAL SLASH == 47
LOCAL LBR == 91
LOCAL RBR == 93
LOCAL IsLower(c) == c \in 97..122
LOCAL IsDigit(c) == c \in 48..57
LOCAL IsSchemeRest(c) == IsLower(c) \/ IsDigit(c) \/ c \in {43, 45, 46, 95}
LOCAL IsHex(c) == IsDigit(c) \/ c \in 97..102
\* forbidden host code points (URL standard) + '%' ; plus everything outside printable ASCII; plus A-Z
LOCAL ForbiddenHost == {0, 9, 10, 13, 32, 35, 37, 47, 58, 60, 62, 63, 64, 91, 92, 93, 94, 124}
LOCAL IsHostByte(c) == c \in 33..126 /\ c \notin ForbiddenHost /\ c \notin 65..90

\* index of the first occurrence of c in s at or after position i (0 if none)
RECURSIVE IndexFrom(_, _, _)
IndexFrom(s, c, i) == IF i > Len(s) THEN 0 ELSE IF s[i] = c THEN i ELSE IndexFrom(s, c, i + 1)

LOCAL All(s, P(_)) == \A i \in 1..Len(s) : P(s[i])
LOCAL Count(s, c) == LET RECURSIVE Cn(_) Cn(i) == IF i > Len(s) THEN 0 ELSE (IF s[i] = c THEN 1 ELSE 0) + Cn(i + 1) IN Cn(1)

RECURSIVE DecVal(_, _, _)
DecVal(s, i, acc) == IF i > Len(s) THEN acc ELSE DecVal(s, i + 1, acc * 10 + (s[i] - 48))

NotAnOrigin == [ok |-> FALSE, scheme |-> <<>>, host |-> <<>>, port |-> 0]

\* parses the part after the host: "" or ":" port
LOCAL PortOf(rest) ==
  IF rest = <<>> THEN [ok |-> TRUE, port |-> 0]
  ELSE IF rest[1] # COLON THEN [ok |-> FALSE, port |-> 0]
  ELSE LET d == Tail(rest) IN
       IF d = <<>> \/ Len(d) > 5 \/ ~All(d, IsDigit) \/ d[1] = 48 THEN [ok |-> FALSE, port |-> 0]
       ELSE LET v == DecVal(d, 1, 0) IN
            IF v < 1 \/ v > 65535 THEN [ok |-> FALSE, port |-> 0] ELSE [ok |-> TRUE, port |-> v]

SerializedOrigin(b) ==
  LET c == IndexFrom(b, COLON, 1) IN
  IF c < 2 \/ Len(b) < c + 3 THEN NotAnOrigin
  ELSE LET scheme == SubSeq(b, 1, c - 1) IN
  IF ~IsLower(scheme[1]) \/ ~All(scheme, IsSchemeRest) \/ b[c + 1] # SLASH \/ b[c + 2] # SLASH THEN NotAnOrigin
  ELSE LET rest == SubSeq(b, c + 3, Len(b)) IN
  IF rest[1] = LBR
    THEN LET e == IndexFrom(rest, RBR, 1) IN
         IF e < 3 THEN NotAnOrigin
         ELSE LET inner == SubSeq(rest, 2, e - 1)
                  p     == PortOf(SubSeq(rest, e + 1, Len(rest)))
              IN IF All(inner, LAMBDA x : IsHex(x) \/ x = COLON \/ x = 46) /\ Count(inner, COLON) >= 2 /\ p.ok
                   THEN [ok |-> TRUE, scheme |-> scheme, host |-> SubSeq(rest, 1, e), port |-> p.port]
                   ELSE NotAnOrigin
    ELSE LET k    == IndexFrom(rest, COLON, 1)
             host == IF k = 0 THEN rest ELSE SubSeq(rest, 1, k - 1)
             p    == PortOf(IF k = 0 THEN <<>> ELSE SubSeq(rest, k, Len(rest)))
         IN IF host # <<>> /\ All(host, IsHostByte) /\ p.ok
              THEN [ok |-> TRUE, scheme |-> scheme, host |-> host, port |-> p.port]
              ELSE NotAnOrigin
=============================================================================
