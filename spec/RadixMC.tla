------------------------------ MODULE RadixMC ------------------------------
(***************************************************************************)
(* Bounded configuration of Radix.tla and generator for binding G (C01).   *)
(* Universe: byte alphabet {a, b, .}; pattern hosts chosen so that         *)
(* suffixes are shared at NON-label boundaries (b / ab / b.b / ab.b ...),  *)
(* 2 schemes, ports {none, 1, *}, wild or not  ->  72 patterns;            *)
(* 14 probe hosts (every left-extension / truncation / sub- and super-     *)
(* domain of the pattern hosts) x 2 schemes x ports {none, 1, 2} -> 84     *)
(* probe origins.  State = the insertion sequence (as pattern indices) and *)
(* the tree built by the modelled Insert.                                  *)
(***************************************************************************)
EXTENDS Radix, Json, CSV, IOUtils

CONSTANTS MaxLen,      \* longest insertion sequence explored
          DumpCases,   \* TRUE: write one JSON line per reachable state to IOEnv.OUT_FILE
          Uni          \* "full": 72 patterns; "small": a 40-pattern sub-universe (hosts b, ab, a.b, b.b, a.a.b; ports none / *),
                       \* explored one insertion deeper for the same budget; "ports": 48 patterns over 2 hosts x 3 schemes x
                       \* ports none / 1 / 2 / * (nodes with several schemes and several explicit ports)

a == 97
b == 98

\* "ports": few hosts, but three schemes and two explicit ports, so that a node carries several schemes and several ports
PatHosts == CASE Uni = "small" -> << <<b>>, <<a,b>>, <<a,DOT,b>>, <<b,DOT,b>>, <<a,DOT,a,DOT,b>> >>
              [] Uni = "ports" -> << <<b>>, <<a,DOT,b>> >>
              [] OTHER -> << <<b>>, <<a,b>>, <<a,DOT,b>>, <<b,DOT,b>>, <<a,b,DOT,b>>, <<a,DOT,a,DOT,b>> >>
Schemes  == IF Uni = "ports" THEN << "s", "t", "u" >> ELSE << "s", "t" >>
PatPorts == CASE Uni = "small" -> << NoPort, AnyPort >>
              [] Uni = "ports" -> << NoPort, 1, 2, AnyPort >>
              [] OTHER -> << NoPort, 1, AnyPort >>
NPat     == Len(PatHosts) * Len(Schemes) * Len(PatPorts) * 2

PatAt(i) ==
  LET j == i - 1
      w == j % 2
      q == (j \div 2) % Len(PatPorts)
      s == (j \div (2 * Len(PatPorts))) % Len(Schemes)
      h == j \div (2 * Len(PatPorts) * Len(Schemes))
  IN [scheme |-> Schemes[s + 1], wild |-> (w = 1), host |-> PatHosts[h + 1], port |-> PatPorts[q + 1]]

ProbeHosts == << <<b>>, <<a,b>>, <<a,DOT,b>>, <<b,DOT,b>>, <<a,b,DOT,b>>, <<a,DOT,a,DOT,b>>,
                 <<a>>, <<b,b>>, <<a,a,b>>, <<a,DOT,a,b>>, <<b,DOT,a,DOT,b>>, <<a,DOT,b,DOT,b>>,
                 <<a,DOT,a,b,DOT,b>>, <<b,DOT,a,DOT,a,DOT,b>> >>
ProbePorts == IF Uni = "ports" THEN << NoPort, 1, 2, 3 >> ELSE << NoPort, 1, 2 >>
NProbe     == Len(ProbeHosts) * Len(Schemes) * Len(ProbePorts)

ProbeAt(i) ==
  LET j == i - 1
      q == j % Len(ProbePorts)
      s == (j \div Len(ProbePorts)) % Len(Schemes)
      h == j \div (Len(ProbePorts) * Len(Schemes))
  IN [scheme |-> Schemes[s + 1], host |-> ProbeHosts[h + 1], port |-> ProbePorts[q + 1]]

VARIABLES ins, tree
vars == <<ins, tree>>

InsSet == { PatAt(ins[i]) : i \in DOMAIN ins }

Init == ins = <<>> /\ tree = NewNode(<<>>)
Insert(i) == /\ Len(ins) < MaxLen
             /\ ins'  = Append(ins, i)
             /\ tree' = TreeInsert(tree, PatAt(i))
Next == \E i \in 1..NPat : Insert(i)
Spec == Init /\ [][Next]_vars

(***************************************************************************)
(* Properties.                                                             *)
(***************************************************************************)
\* C01 at model level: the tree answers exactly what the patterns denote.
Refines == \A j \in 1..NProbe : TreeContains(tree, ProbeAt(j)) = Allowed(InsSet, ProbeAt(j))
\* Because every ORDER and MULTIPLICITY of every multiset of <= MaxLen patterns is a reachable
\* state and Allowed depends only on the set, Refines on all states implies order/multiplicity
\* irrelevance (the second sentence of C01).
WellFormed == WellFormedAt(tree, TRUE)
\* Round-trip lemma behind C06: what Elems lists denotes exactly what was inserted ...
ElemsDenoteSame == \A j \in 1..NProbe : Allowed(TreeElems(tree), ProbeAt(j)) = Allowed(InsSet, ProbeAt(j))
\* ... and only lists things that were inserted.
ElemsSubset == TreeElems(tree) \subseteq InsSet
\* rebuilding a tree from Elems (in any one order - here: fold over the set) answers the same
RECURSIVE FoldIns(_, _)
FoldIns(t, S) == IF S = {} THEN t ELSE LET p == CHOOSE x \in S : TRUE IN FoldIns(TreeInsert(t, p), S \ {p})
RebuildSame == LET t2 == FoldIns(NewNode(<<>>), TreeElems(tree))
               IN \A j \in 1..NProbe : TreeContains(t2, ProbeAt(j)) = TreeContains(tree, ProbeAt(j))

(***************************************************************************)
(* Generator (binding G): every reachable insertion sequence with the set  *)
(* of probe indices that Origins!Allowed admits.  Evaluated as a state     *)
(* constraint so that all workers share the work.                          *)
(***************************************************************************)
AllowedIdx == { j \in 1..NProbe : Allowed(InsSet, ProbeAt(j)) }
Dump == IF DumpCases
          THEN CSVWrite("%1$s", <<ToJson([p |-> ins, v |-> AllowedIdx, n |-> Cardinality(TreeElems(tree))])>>, IOEnv.OUT_FILE)
          ELSE TRUE

\* the universe tables, written once (constant level)
Universe == [pats   |-> [i \in 1..NPat   |-> PatAt(i)],
             probes |-> [i \in 1..NProbe |-> ProbeAt(i)]]
ASSUME DumpCases => JsonSerialize(IOEnv.UNIVERSE_FILE, Universe)
=============================================================================
