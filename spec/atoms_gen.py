#!/usr/bin/env python3
"""Generates spec/atoms.json: the table of labelled configuration atoms shared by the specification
(Config.tla / TraceConfig.tla read it with JsonDeserialize) and by the Go concretiser. An atom is a
class of list entries with the attributes the documented rules talk about, and several concrete spellings."""
import json, os

A = []
def atom(id, field, cls, spellings, **attrs):
    d = {"id": id, "field": field, "cls": cls, "spellings": spellings,
         "insecure": False, "psl": False, "wild": False, "reasons": [], "norm": []}
    d.update(attrs)
    A.append(d)

# ------------------------------------------------------------------ origins
atom("o_star", "origins", "star", ["*"])
atom("o_https", "origins", "valid", ["https://example.com", "https://sub.example.org:8443", "https://www.xn--xample-9ua.com",
                                    "https://example.com.", "https://a-b.example.com:1", "https://example.co.uk:65535"])
atom("o_http", "origins", "valid", ["http://example.com", "http://foo.example.net:8080", "http://example.com:443", "http://example.org.",
                                   # hosts that merely LOOK like localhost / a loopback address
                                   "http://localhost.example.com", "http://localhosts", "http://notlocalhost:8080", "http://127.example.com",
                                   "http://my.localhost", "http://128.0.0.1", "http://[::2]"], insecure=True)
atom("o_custom", "origins", "valid", ["connector://example.com", "foo+bar://example.com:80", "httpss://example.com", "ws://example.com:*"], insecure=True)
atom("o_local", "origins", "valid", ["http://localhost", "http://localhost:3000", "http://127.0.0.1:8080", "http://[::1]:9090",
                                    "connector://localhost", "http://127.127.127.127", "http://localhost:*"])
atom("o_ip", "origins", "valid", ["http://10.0.0.1", "http://192.168.1.20:8080", "http://[2001:db8::1]", "http://169.254.169.254:90"], insecure=True)
atom("o_wild_https", "origins", "valid", ["https://*.example.com", "https://*.example.com:*", "https://*.sub.example.org:8443", "https://*.example.com."], wild=True)
atom("o_wild_http", "origins", "valid", ["http://*.example.com", "foo://*.example.com:*"], wild=True, insecure=True)
atom("o_psl_https", "origins", "valid", ["https://*.com", "https://*.com.", "https://*.co.uk:*", "https://*.github.io", "https://*.com:8443", "https://*.org"], wild=True, psl=True)
atom("o_psl_http", "origins", "valid", ["http://*.com", "http://*.co.uk.:8080"], wild=True, psl=True, insecure=True)
# public suffixes of every depth (3, 4 and 5 labels), by a wildcard rule of the list (`*.ck`, `*.kobe.jp`), private-section entries and
# an unlisted TLD (default rule `*`); classification confirmed with golang.org/x/net/publicsuffix (DESIGN.md 11.5, seeded/C04-4)
atom("o_psl_deep", "origins", "valid", ["https://*.k12.ma.us", "https://*.pvt.k12.ma.us", "https://*.s3.dualstack.us-east-1.amazonaws.com",
                                        "https://*.execute-api.cn-north-1.amazonaws.com.cn:8080", "https://*.foo.ck", "https://*.foo.kobe.jp.",
                                        "https://*.us-east-1.compute.amazonaws.com:*", "https://*.internal", "https://*.foo.sch.uk"], wild=True, psl=True)
# a public-suffix wildcard SHADOWED by a broader wildcard of a registrable (non-suffix) parent domain listed before it
atom("o_wild_aws", "origins", "valid", ["https://*.amazonaws.com:*", "https://*.amazonaws.com"], wild=True)
atom("o_psl_aws", "origins", "valid", ["https://*.s3.amazonaws.com", "https://*.us-east-1.compute.amazonaws.com"], wild=True, psl=True)
# internationalized public suffixes in the A-label form the library requires: multi-label (`xn--55qx5d.cn` = 公司.cn), a suffix made of
# A-labels only, single-label IDN TLDs; classification confirmed with golang.org/x/net/publicsuffix (seeded/C05-10)
atom("o_psl_idn", "origins", "valid", ["https://*.xn--55qx5d.cn", "https://*.xn--io0a7i.cn.", "https://*.xn--55qx5d.hk:*", "https://*.xn--12c1fe0br.xn--o3cw4h",
                                       "https://*.xn--p1ai", "https://*.xn--fiqs8s:8443", "https://*.xn--od0alg.cn"], wild=True, psl=True)
atom("o_wild_idn", "origins", "valid", ["https://*.foo.xn--55qx5d.cn", "https://*.xn--bcher-kva.example", "https://*.xn--bcher-kva.xn--p1ai:*", "https://*.xn--uc0atv.tw"], wild=True)
# look-alikes that are NOT public suffixes: exception rules of the list (`!www.ck`, `!city.kobe.jp`) and registrable domains under deep suffixes
atom("o_wild_notpsl", "origins", "valid", ["https://*.www.ck", "https://*.city.kobe.jp", "https://*.school.pvt.k12.ma.us",
                                           "https://*.compute.amazonaws.com", "https://*.blogspot.co.uk", "https://*.sch.uk"], wild=True)
bad = ["invalid", "prohibited"]
atom("o_null", "origins", "malformed", ["null"], reasons=bad)
atom("o_file", "origins", "malformed", ["file:///somepath", "file://example.com"], reasons=bad)
atom("o_unicode", "origins", "malformed", ["https://www.résumé.com", "https://exämple.com", "https://\u212aelvin.example.com", "https://exa\u0130mple.com", "http\u017f://example.com",
                                          # 3-byte characters whose UTF-8 bytes equal ASCII label bytes + 0x80 (a 7-bit mask turns them into letters)
                                          "https://\u5c31.com", "https://\u4e2d.example.com", "http://\u5c39.example.com:8080", "https://*.\u5c31.example.com", "https://example.\uac30.kr"], reasons=bad)
atom("o_upper", "origins", "malformed", ["https://EXAMPLE.com", "https://example.Com"], reasons=bad)
atom("o_defport", "origins", "malformed", ["https://example.com:443", "http://example.com:80", "http://*.example.com:80"], reasons=bad)
atom("o_badport", "origins", "malformed", ["https://example.com:0", "https://example.com:65536", "https://example.com:080", "https://example.com:",
                                          "https://example.com:123456", "https://example.com:-1", "https://example.com:8a", "https://example.com:*8"], reasons=bad)
atom("o_tail", "origins", "malformed", ["https://example.com/", "https://example.com/path", "https://example.com?q=1", "https://example.com#f",
                                       "https://user@example.com", "https://user:pw@example.com"], reasons=bad)
atom("o_ws", "origins", "malformed", [" https://example.com", "https://example.com ", "https://exa mple.com", "\thttps://example.com"], reasons=bad)
atom("o_ipbad", "origins", "malformed", ["http://[0:0:0:0:0:0:0:0001]:9090", "http://[0000:0000:0000:0000:0000:0000:0000:0001]", "http://[::ffff:1.2.3.4]",
                                        "http://[fe80::1%eth0]", "http://127.0.0.1.5", "http://256.0.0.1", "http://0x7f000001", "http://0xff000000:8080", "http://127.0.0.0x1",
                                        "http://192.168.0x1:9090", "http://10.0.0.0xa:*", "http://127.1", "http://2130706433", "http://0177.0.0.1", "http://0x7f.0.0.1", "http://1.2.3", "http://[::1", "http://::1]", "http://[[::1]]"], reasons=bad)
atom("o_wildbad", "origins", "malformed", ["https://*example.com", "https://foo.*.com", "https://*.*.example.com", "http://*.127.0.0.1", "https://*",
                                          "https://**.example.com", "https://*.", "http://*.[::1]", "https://ex*mple.com"], reasons=bad)
atom("o_long", "origins", "malformed", ["https://" + "a" * 64 + ".com", "https://example." + "a" * 64, "https://" + "a" * 64, "http://*.example." + "b" * 64 + ":8080",
                                       # hyphens at the edge of the FINAL label, of a middle label, of the only label
                                       "https://example.com-", "https://example.-com", "https://foo-", "https://-foo", "https://a.b-.example", "https://*.example.com-",
                                       # defects far beyond every buffer: the error must still name the whole string
                                       "https://example.com/" + "p" * 1500, "https://" + ".".join(["c" * 60] * 20) + ".example", "https://example.com:" + "9" * 1200, "https://" + ".".join(["a" * 63] * 4) + ".toolong",
                                       "x" * 65 + "://example.com", "https://*." + ".".join(["b" * 62] * 4) + "c"], reasons=bad)
atom("o_junk", "origins", "malformed", ["", "://", "https//example.com", "https:/example.com", "https:example.com", "example.com", "1ttp://example.com",
                                       "\u0000", "https://", "https://.example.com", "https://example..com", "https://exa\u0000mple.com"], reasons=bad)

# ------------------------------------------------------------------ methods
atom("m_star", "methods", "star", ["*"])
atom("m_safe", "methods", "safelisted", ["GET", "HEAD", "POST", "get", "Post", "heAd"])
atom("m_norm", "methods", "valid", ["PUT", "put", "Delete", "OPTIONS", "options", "DELETE"])
atom("m_custom", "methods", "valid", ["PATCH", "patch", "PURGE", "QUERY", "M-SEARCH", "x"])
atom("m_forbidden", "methods", "bad", ["CONNECT", "TRACE", "TRACK", "connect", "Trace", "tRaCk"], reasons=["forbidden"])
atom("m_invalid", "methods", "bad", ["", "résumé", "a b", "GET,POST", "(", "PUT ", "\u0000", "\u017fEARCH", "PO\u017fT", "trac\u212a", "DELETE,PUT"], reasons=["invalid"])

# ------------------------------------------------------------------ request headers
atom("h_star", "reqh", "star", ["*"])
atom("h_auth", "reqh", "auth", ["Authorization", "authorization", "AUTHORIZATION", "aUtHoRiZaTiOn"])
atom("h_plain", "reqh", "valid", ["X-Foo", "content-type", "X-Requested-With", "x-a", "ACCEPT", "If-None-Match",
                                   # names that merely LOOK forbidden / prohibited: bare prefixes without the hyphen, extensions of forbidden names
                                   "Sec", "Proxy", "sec", "PROXY", "Secure", "Proxies", "Cookies", "Hosts", "Access-Control", "Origins"])
atom("h_forbidden", "reqh", "bad", ["Cookie", "cookie", "Host", "Sec-Fetch-Mode", "Proxy-Authorization", "proxy-foo", "sec-x", "Origin", "Content-Length",
                                   "Access-Control-Request-Method", "access-control-request-headers", "Access-Control-Request-Private-Network", "DNT",
                                   "Accept-Encoding", "TE", "Via", "SEC-", "Proxy-"], reasons=["forbidden"])
atom("h_prohibited", "reqh", "bad", ["Access-Control-Allow-Origin", "access-control-allow-headers", "Access-Control-Allow-Methods", "ACCESS-CONTROL-ALLOW-CREDENTIALS",
                                    "Access-Control-Expose-Headers", "Access-Control-Max-Age", "Access-Control-Allow-Private-Network"], reasons=["prohibited"])
atom("h_invalid", "reqh", "bad", ["", "bad header", "résumé", "x:y", "a,b", " x", "\u0000",
                                  # non-ASCII runes whose Unicode case mapping is ASCII (Kelvin sign -> k, dotted capital I -> i, long s -> S):
                                  # invalid as supplied, valid / forbidden / safelisted look-alikes after a careless ToLower / ToUpper
                                  "X-\u212aey", "x-t\u0130me", "Coo\u212aie", "\u017fet-x", "Or\u0130gin"], reasons=["invalid"])

# ------------------------------------------------------------------ response headers
atom("e_star", "resph", "star", ["*"])
atom("e_plain", "resph", "valid", ["X-Response-Time", "etag", "X-Foo", "Location", "x-e"])
atom("e_safe", "resph", "safelisted", ["Cache-Control", "content-language", "Content-Length", "content-type", "Expires", "Last-Modified", "PRAGMA"])
atom("e_forbidden", "resph", "bad", ["Set-Cookie", "set-cookie2", "SET-COOKIE"], reasons=["forbidden"])
atom("e_prohibited", "resph", "bad", ["Origin", "Access-Control-Request-Method", "access-control-request-headers", "Access-Control-Request-Private-Network", "ORIGIN"],
     reasons=["prohibited"])
atom("e_invalid", "resph", "bad", ["", "bad header", "résumé", "a,b", "X-Response-T\u0130me", "Exp\u0130res", "Set-Coo\u212aie", "Or\u0130gin", "x-\u212a"], reasons=["invalid"])

out = os.path.join(os.path.dirname(os.path.abspath(__file__)), "atoms.json")
json.dump({"atoms": A}, open(out, "w"), indent=1, ensure_ascii=True)
print("wrote", out, len(A), "atoms", sum(len(a["spellings"]) for a in A), "spellings")
