----------------------------- MODULE TraceAcrh -----------------------------
(***************************************************************************)
(* Trace specification for C14 (binding T): for each allowed-name set      *)
(* ("Set" event) the driver sends preflights with seeded ACRH field lines  *)
(* around the real cut-offs to the REAL middleware (debug off, allowed     *)
(* origin, safelisted ACRM) and logs whether the preflight was approved.   *)
(* TLC evaluates Acrh!Approved with the documented constants (1 byte of    *)
(* OWS per side, 16 empty elements) on the logged bytes.                   *)
(***************************************************************************)
EXTENDS Acrh, Json, IOUtils

Trace == ndJsonDeserialize(IOEnv.TRACE_FILE)

VARIABLES l, set, bad, stats
vars == <<l, set, bad, stats>>
\* The monitor is a deterministic chain, one state per consumed event: fingerprinting the position alone (cfg: VIEW TraceView)
\* keeps validation linear however large `bad`, the references or the block grow.
TraceView == l

SetEv == /\ l <= Len(Trace) /\ Trace[l].ev = "Set" /\ l' = l + 1
         /\ set' = Range(Trace[l].names) /\ UNCHANGED <<bad, stats>>
AcrhEv == /\ l <= Len(Trace) /\ Trace[l].ev = "Acrh" /\ l' = l + 1
          /\ LET e == Trace[l]  want == Approved(set, e.lines) IN
             /\ bad' = (IF e.ok # want THEN {<<l, IF want THEN "a list that must be approved was refused" ELSE "a list that must be refused was approved">>} ELSE {})
                       \cup (IF e.ok /\ ~e.reflected THEN {<<l, "approved, but Access-Control-Allow-Headers does not reflect the request's field lines">>} ELSE {})
                       \cup bad
             /\ stats' = [stats EXCEPT !.approved = @ + (IF want THEN 1 ELSE 0), !.refused = @ + (IF want THEN 0 ELSE 1)]
          /\ UNCHANGED set
Init == l = 1 /\ set = {} /\ bad = {} /\ stats = [approved |-> 0, refused |-> 0]
Next == SetEv \/ AcrhEv
Spec == Init /\ [][Next]_vars
Final == (l = Len(Trace) + 1) =>
           JsonSerialize(IOEnv.RESULT_FILE, [bad |-> bad, consumed |-> l - 1, total |-> Len(Trace), stats |-> stats])
=============================================================================
