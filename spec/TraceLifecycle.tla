--------------------------- MODULE TraceLifecycle ---------------------------
(***************************************************************************)
(* Trace specification for the life-cycle properties C06, C08, C09, C12    *)
(* (binding T).  The driver performs NewMiddleware / zero value /          *)
(* Reconfigure / SetDebug / Config() calls (and caller-side mutations,     *)
(* which are stuttering steps) on several real middlewares and, after      *)
(* every step, OBSERVES them: `fp` is a fingerprint of the real responses  *)
(* to a fixed probe suite (status, all headers, handler invoked?), `cfgfp` *)
(* a fingerprint of the value Config() returns.                            *)
(*                                                                         *)
(* The monitor steps the documented state machine of MwState.tla for every *)
(* middleware and requires                                                 *)
(*   - outcomes: valid configurations accepted, invalid ones rejected with *)
(*     a nil *Middleware, Reconfigure(Config()) accepted;                  *)
(*   - the observation is a FUNCTION of the abstract state                 *)
(*     (configuration identity, debug): the first observation of a state   *)
(*     within a segment is its reference, every later observation of the   *)
(*     same state - on any middleware, after any history - must equal it   *)
(*     (C08: rejected Reconfigure; C09: the debug state machine; C06:      *)
(*     constructors agree and round trips are no-ops; C12: immunity to     *)
(*     caller-side mutation and to request history);                       *)
(*   - Config() is nil exactly for passthrough, unchanged across steps     *)
(*     that do not change the configuration, and stable from the second    *)
(*     generation on.                                                      *)
(* Total monitor: offending <<event index, reason>> pairs go to `bad`.     *)
(***************************************************************************)
EXTENDS Naturals, Sequences, FiniteSets, TLC, Json, IOUtils, MwState

CONSTANT RequireDistinct   \* TRUE: the segment's configurations were chosen to differ observably (and debug mode shows
                           \* in failing preflights of each), so two DIFFERENT abstract states with equal observations
                           \* mean that a configuration or the debug mode has no effect - a violation of the state machine

Trace == ndJsonDeserialize(IOEnv.TRACE_FILE)

VARIABLES l, mws, ref, cfgfp, gens, bad, stats
vars == <<l, mws, ref, cfgfp, gens, bad, stats>>
\* The monitor is a deterministic chain, one state per consumed event: fingerprinting the position alone (cfg: VIEW TraceView)
\* keeps validation linear however large `bad`, the references or the block grow.
TraceView == l

Ev(e) == l <= Len(Trace) /\ Trace[l].ev = e /\ l' = l + 1
EmptyFn == [x \in {} |-> x]
Put(f, k, v) == [x \in DOMAIN f \cup {k} |-> IF x = k THEN v ELSE f[x]]
Del(f, k) == [x \in DOMAIN f \ {k} |-> f[x]]
Flag(cond, why) == IF cond THEN bad ELSE bad \cup {<<l, why>>}

\* keep = TRUE: the next segment uses the same named configurations and probe suite; the references stay, so equal
\* abstract states reached by DIFFERENT histories are compared with each other too
Keep == "keep" \in DOMAIN Trace[l] /\ Trace[l].keep
Reset == Ev("Reset") /\ mws' = EmptyFn /\ ref' = (IF Keep THEN ref ELSE EmptyFn) /\ cfgfp' = EmptyFn /\ gens' = EmptyFn
         /\ stats' = [stats EXCEPT !.segments = @ + 1,
                                   !.weak = @ + Cardinality({p \in (DOMAIN ref) \X (DOMAIN ref) : p[1] # p[2] /\ ref[p[1]] = ref[p[2]]})]
         /\ bad' = IF RequireDistinct
                      THEN bad \cup { <<l - 1, "two different (configuration, debug) states are observably indistinguishable">> :
                                      p \in {p \in (DOMAIN ref) \X (DOMAIN ref) : p[1] # p[2] /\ ref[p[1]] = ref[p[2]]} }
                      ELSE bad
Skip == /\ l <= Len(Trace) /\ Trace[l].ev \in {"Stutter", "Note", "Rejected", "Panic"} /\ l' = l + 1
        /\ UNCHANGED <<mws, ref, cfgfp, gens, bad, stats>>

\* a SetDebug / Reconfigure call made from a handler that the middleware itself wraps (the documentation invites exposing them on
\* endpoints of the protected server) never returned: the step of the state machine was not taken, nor can any later one be
\* (by = "watchdog": some other call into the library blocked; the run ends there without a verdict of this specification)
Hang == /\ Ev("Hang") /\ bad' = (IF Trace[l].by = "handler" THEN bad \cup {<<l, Trace[l].what>>} ELSE bad)
        /\ UNCHANGED <<mws, ref, cfgfp, gens, stats>>

\* the witness - a middleware built when the run began and never touched since - answers its probe suite as it did then (C12: a
\* response depends only on the configuration, the debug mode and the request; not on what was done to OTHER middlewares)
Witness == /\ Ev("Witness")
           /\ bad' = (IF Trace[l].fp = Trace[l].first THEN bad
                      ELSE bad \cup {<<l, "a middleware that nobody has touched since the run began answers differently now">>})
           /\ UNCHANGED <<mws, ref, cfgfp, gens, stats>>

Zero == /\ Ev("Zero")
        /\ mws' = Put(mws, Trace[l].mw, ZeroState) /\ cfgfp' = Del(cfgfp, Trace[l].mw)
        /\ gens' = Put(gens, Trace[l].mw, 0)
        /\ UNCHANGED <<ref, bad, stats>>

New ==
  /\ Ev("New")
  /\ LET e == Trace[l] IN
     IF e.cfg = "invalid"
       THEN /\ bad' = Flag(~e.ok /\ e.nilmw, "NewMiddleware(invalid) must return a nil middleware and an error")
            /\ UNCHANGED <<mws, cfgfp, gens>>
     ELSE IF e.cfg = "from"       \* built from the Config() of middleware e.from
       THEN LET src == mws[e.from] IN
            /\ bad' = Flag(e.ok /\ ~e.nilmw, "NewMiddleware(*m.Config()) was rejected")
            /\ mws' = IF e.ok THEN Put(mws, e.mw, NewState(src.icfg)) ELSE mws
            /\ cfgfp' = IF e.ok /\ e.gen >= 2 /\ e.from \in DOMAIN cfgfp
                          THEN Put(cfgfp, e.mw, cfgfp[e.from])      \* stability: must render what its source rendered
                          ELSE Del(cfgfp, e.mw)
            /\ gens' = Put(gens, e.mw, e.gen)
     ELSE /\ bad' = Flag(e.ok /\ ~e.nilmw, "NewMiddleware(valid) was rejected")
          /\ mws' = IF e.ok THEN Put(mws, e.mw, NewState(e.cfg)) ELSE mws
          /\ cfgfp' = Del(cfgfp, e.mw)
          /\ gens' = Put(gens, e.mw, 0)
  /\ UNCHANGED <<ref, stats>>

Reconf ==
  /\ Ev("Reconf")
  /\ LET e == Trace[l]  s == mws[e.mw] IN
     IF e.cfg = "invalid"
       THEN /\ bad' = Flag(~e.ok, "Reconfigure(invalid) returned a nil error")
            /\ UNCHANGED <<mws, cfgfp, gens>>                        \* C08: nothing changes
     ELSE IF e.cfg = "self"
       THEN /\ bad' = Flag(e.ok, "m.Reconfigure(m.Config()) failed")
            /\ UNCHANGED mws                                         \* C06: a no-op on the behaviour
            \* the rendered value may change ONCE (first round trip of a middleware built from a user's
            \* Config: e.g. a pattern subsumed by a wildcard that sorts before it disappears), never again
            /\ cfgfp' = IF gens[e.mw] = 0 THEN Del(cfgfp, e.mw) ELSE cfgfp
            /\ gens' = Put(gens, e.mw, gens[e.mw] + 1)
     ELSE /\ bad' = Flag(e.ok, "Reconfigure(valid or nil) failed")
          /\ mws' = IF e.ok THEN Put(mws, e.mw, CommitState(s, IF e.cfg = "nil" THEN Nil ELSE e.cfg)) ELSE mws
          /\ cfgfp' = IF e.ok THEN Del(cfgfp, e.mw) ELSE cfgfp
          /\ gens' = IF e.ok THEN Put(gens, e.mw, 0) ELSE gens
  /\ UNCHANGED <<ref, stats>>

SetDebug ==
  /\ Ev("SetDebug")
  /\ mws' = Put(mws, Trace[l].mw, SetDebugState(mws[Trace[l].mw], Trace[l].b))
  /\ UNCHANGED <<ref, cfgfp, gens, bad, stats>>

Observe ==
  /\ Ev("Observe")
  /\ LET e == Trace[l]  s == mws[e.mw]  key == <<s.icfg, s.debug>> IN
     /\ ref' = IF key \in DOMAIN ref THEN ref ELSE Put(ref, key, e.fp)
     /\ cfgfp' = IF e.mw \in DOMAIN cfgfp THEN cfgfp ELSE Put(cfgfp, e.mw, e.cfgfp)
     /\ bad' = (IF key \in DOMAIN ref /\ ref[key] # e.fp
                  THEN {<<l, "responses differ from the reference for the same (configuration, debug) state">>} ELSE {})
               \cup (IF e.cfgnil # (s.icfg = Nil) THEN {<<l, "Config() nil-ness does not match passthrough-ness">>} ELSE {})
               \cup (IF e.mw \in DOMAIN cfgfp /\ cfgfp[e.mw] # e.cfgfp THEN {<<l, "Config() value changed although the configuration did not">>} ELSE {})
               \cup bad
     /\ stats' = [stats EXCEPT !.observations = @ + 1, !.compared = @ + (IF key \in DOMAIN ref THEN 1 ELSE 0),
                               !.debugOn = @ + (IF s.debug THEN 1 ELSE 0)]
  /\ UNCHANGED <<mws, gens>>

\* Twin experiment (C08): middleware a performed a history, middleware b the same history without the rejected
\* Reconfigure calls.  The state machine says their abstract states are equal; then they must be indistinguishable.
Pair ==
  /\ Ev("Pair")
  /\ LET e == Trace[l] IN
     /\ bad' = (IF mws[e.a] # mws[e.b] THEN {<<l, "MODEL: the twins' abstract states differ">>}
                ELSE IF e.fpa # e.fpb THEN {<<l, "a middleware that saw a rejected Reconfigure responds differently from its twin that did not">>}
                ELSE IF e.cfa # e.cfb THEN {<<l, "Config() of a middleware that saw a rejected Reconfigure differs from its twin's">>}
                ELSE {}) \cup bad
     /\ stats' = [stats EXCEPT !.observations = @ + 1, !.compared = @ + 1, !.debugOn = @ + (IF mws[e.a].debug THEN 1 ELSE 0)]
  /\ UNCHANGED <<mws, ref, cfgfp, gens>>

\* Configurations named ...R are a named configuration whose first origin the caller overwrote IN PLACE with
\* https://reused.example before passing the same Config value to Reconfigure again (MultiMC.tla, "reuse"): exactly the
\* middlewares in such a state allow that origin.
Reused ==
  /\ Ev("Reused")
  /\ LET e == Trace[l]  want == mws[e.mw].icfg \in {"AR", "BR"} IN
     bad' = IF e.allowed = want /\ e.either = want THEN bad
            ELSE bad \cup {<<l, "after an in-place edit of the Config and Reconfigure with the same value: the edited origin is " \o
                                 (IF want THEN "not allowed" ELSE "allowed although the configuration was replaced")>>}
  /\ UNCHANGED <<mws, ref, cfgfp, gens, stats>>

\* What debug mode IS (C09): a preflight that fails after the origin step shows the ok status and partial headers exactly when
\* the middleware is configured and its debug mode is on.
Debug ==
  /\ Ev("Debug")
  /\ LET e == Trace[l]  want == mws[e.mw].icfg # Nil /\ mws[e.mw].debug IN
     bad' = IF e.shown = want THEN bad
            ELSE bad \cup {<<l, IF want THEN "debug mode is on by the calls made, but a failing preflight gets no diagnostics"
                                        ELSE "debug mode is off by the calls made, but a failing preflight gets diagnostics">>}
  /\ UNCHANGED <<mws, ref, cfgfp, gens, stats>>

Init == l = 1 /\ mws = EmptyFn /\ ref = EmptyFn /\ cfgfp = EmptyFn /\ gens = EmptyFn /\ bad = {}
        /\ stats = [segments |-> 0, observations |-> 0, compared |-> 0, weak |-> 0, debugOn |-> 0]
Next == Reset \/ Skip \/ Zero \/ New \/ Reconf \/ SetDebug \/ Observe \/ Pair \/ Reused \/ Debug \/ Hang \/ Witness
Spec == Init /\ [][Next]_vars

Final == (l = Len(Trace) + 1) =>
           JsonSerialize(IOEnv.RESULT_FILE, [bad |-> bad, consumed |-> l - 1, total |-> Len(Trace), stats |-> stats])
=============================================================================
