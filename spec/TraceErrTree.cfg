SPECIFICATION Spec
CONSTANT EBug = "none"
INVARIANT Final
CHECK_DEADLOCK FALSE
VIEW TraceView
