------------------------------- MODULE AcrhMC -------------------------------
(***************************************************************************)
(* Bounded configuration of Acrh.tla and generator for binding G (C14).    *)
(* Universe: every non-empty set of names over {a, b, ab, ba} (15 sets) x  *)
(* every sequence of <= MaxLines field lines with <= MaxBytes bytes in     *)
(* total over the alphabet {a, b, ",", SP, TAB}, grown byte by byte        *)
(* through Next.  MaxEmpty is 2 in the bounded configuration, so that the  *)
(* budget of empty elements is crossed inside the bound.                   *)
(***************************************************************************)
EXTENDS Acrh, Json, CSV, IOUtils

CONSTANTS MaxLines, MaxBytes, DumpCases

a == 97
b == 98
Names == { <<a>>, <<b>>, <<a, b>>, <<b, a>> }
Alphabet == {a, b, COMMA, SP, TAB}

VARIABLES set, lines
vars == <<set, lines>>

TotalBytes == LET RECURSIVE T(_) T(i) == IF i > Len(lines) THEN 0 ELSE Len(lines[i]) + T(i + 1) IN T(1)

Init == set \in (SUBSET Names) \ {{}} /\ lines = << <<>> >>
Next ==
  \/ /\ TotalBytes < MaxBytes
     /\ \E c \in Alphabet : lines' = [lines EXCEPT ![Len(lines)] = Append(@, c)]
     /\ UNCHANGED set
  \/ /\ Len(lines) < MaxLines
     /\ lines' = Append(lines, <<>>)
     /\ UNCHANGED set
Spec == Init /\ [][Next]_vars

\* C14 at model level: the windowed scanner computes exactly the declarative meaning ...
Equiv == Scan(set, lines) = Approved(set, lines)
\* ... with every slice expression in bounds (C17) ...
AllInBounds == InBounds(set, lines)
\* ... hence: soundness for any bytes
Sound == Scan(set, lines) => \A e \in Range(Elements(lines)) : Core(e) = <<>> \/ Core(e) \in set

\* completeness for browsers: every sorted, unique, comma-joined list of allowed names - also split
\* one name per line, or padded with one OWS byte per side - is approved
RECURSIVE Join(_, _)
Join(ns, i) == IF i > Len(ns) THEN <<>> ELSE (IF i > 1 THEN <<COMMA>> ELSE <<>>) \o ns[i] \o Join(ns, i + 1)
BrowserComplete ==
  (lines = << <<>> >>) => \A S \in (SUBSET set) \ {{}} :
    LET ns == SortSet(S) IN
    /\ Scan(set, << Join(ns, 1) >>)
    /\ Scan(set, [i \in DOMAIN ns |-> ns[i]])
    /\ Scan(set, << Join([i \in DOMAIN ns |-> <<SP>> \o ns[i] \o <<TAB>>], 1) >>)
    /\ Scan(set, << <<>>, Join(ns, 1) \o <<COMMA>> >>)

\* generator: the verdict for the DOCUMENTED constants (1 OWS byte, 16 empty elements)
SetIdxOf(S) == (IF <<a>> \in S THEN 1 ELSE 0) + (IF <<b>> \in S THEN 2 ELSE 0)
               + (IF <<a, b>> \in S THEN 4 ELSE 0) + (IF <<b, a>> \in S THEN 8 ELSE 0)
Dump == IF DumpCases
          THEN CSVWrite("%1$s", <<ToJson([s |-> SetIdxOf(set), l |-> lines, ok |-> ApprovedWith(set, lines, 1, 16)])>>, IOEnv.OUT_FILE)
          ELSE TRUE
=============================================================================
