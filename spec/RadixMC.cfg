SPECIFICATION Spec
CONSTANTS
  Bug = "none"
  MaxLen = 2
  DumpCases = FALSE
  Uni = "full"
INVARIANTS Refines WellFormed ElemsDenoteSame ElemsSubset RebuildSame
CHECK_DEADLOCK FALSE
