------------------------------- MODULE CorsMC -------------------------------
(***************************************************************************)
(* Bounded configuration of Cors.tla + Browser.tla.  TLC enumerates every  *)
(* semantic configuration of an abstract universe (in three stages, so     *)
(* that all workers share the work) x both debug modes, and evaluates, for *)
(* each, the model-level statements of                                     *)
(*   C02  BrowserVerdictIsMeaning   (all intents x tolerated perturbations)*)
(*   C03  HeadersWellFormed         (all abstract requests, incl. junk)    *)
(*   C09  DebugOnlyDiagnostics      (last sentence)                        *)
(*   C10  VarySufficient            (all ordered pairs of requests)        *)
(*   C11  DispatchRule, OnlyDocumentedEdits                                *)
(*   C16  NoDisclosure                                                     *)
(* Negative twins (CBug) must be rejected.                                 *)
(***************************************************************************)
EXTENDS Browser, Json, CSV, IOUtils

CONSTANTS CheckPairs,     \* TRUE: also evaluate the (expensive) all-pairs property C10
          DumpSems        \* TRUE: write every semantic configuration (binding G of C02) to IOEnv.OUT_FILE

RECURSIVE SetToSeqJ(_)
SetToSeqJ(S) == IF S = {} THEN <<>> ELSE LET x == CHOOSE x \in S : TRUE IN <<x>> \o SetToSeqJ(S \ {x})
\* ---------------------------------------------------------------- universe
NameOrderDef == <<"authorization", "x-a", "x-b", "x-z">>
AcrhOKElems(s, r) == ApprovedElems(Sorted(s.hNames), r.acrh.lines)     \* element-level approval (byte level: Acrh.tla)
AcrhEchoElems(r) == EchoLines(r)
oA == [txt |-> "https://a", wf |-> TRUE,  parse |-> TRUE,  member |-> TRUE]
oB == [txt |-> "https://b", wf |-> TRUE,  parse |-> TRUE,  member |-> FALSE]
oX == [txt |-> "junk",      wf |-> FALSE, parse |-> FALSE, member |-> FALSE]
\* finding F4: accepted by the lenient scanner and found in the tree although it is not the
\* serialization of any origin; only part of the universe of the twin CBug = "f4"
oF == [txt |-> "https://[a]", wf |-> FALSE, parse |-> TRUE, member |-> TRUE]

MethodSets == { {}, {"PUT"}, {"PUT", "PATCH"}, {"OPTIONS"} }
NameSets   == SUBSET {"x-a", "x-b"}
Extras     == { [maxAge |-> 0,   expose |-> "",    status |-> 204],
                [maxAge |-> -1,  expose |-> "x-e", status |-> 200],
                [maxAge |-> 600, expose |-> "*",   status |-> 204] }

Stage1 == { [cred |-> c, pna |-> p, any |-> a] :
              c \in BOOLEAN, p \in {"none", "cors", "nocors"}, a \in BOOLEAN }
Valid1(x) == x.any => (~x.cred /\ x.pna = "none")

Sems(x, mAny, meths) ==
  { [pass |-> FALSE, any |-> x.any, cred |-> x.cred, pna |-> x.pna,
     mAny |-> mAny, meths |-> IF mAny THEN {} ELSE meths,
     hStar |-> hs, hAuth |-> ha,
     hNames |-> IF hs THEN {} ELSE (ns \cup (IF ha THEN {AUTH} ELSE {})),
     maxAge |-> e.maxAge, expose |-> (IF e.expose = "*" /\ x.cred THEN "x-e" ELSE e.expose), status |-> e.status]
    : hs \in BOOLEAN, ha \in BOOLEAN, ns \in NameSets, e \in Extras }

PassSem == [pass |-> TRUE, any |-> FALSE, cred |-> FALSE, pna |-> "none", mAny |-> FALSE, meths |-> {},
            hStar |-> FALSE, hAuth |-> FALSE, hNames |-> {}, maxAge |-> 0, expose |-> "", status |-> 204]

VARIABLES stage, x1, x2, sem, dbg
vars == <<stage, x1, x2, sem, dbg>>

Init == stage = 0 /\ x1 = 0 /\ x2 = 0 /\ sem = PassSem /\ dbg = FALSE
Next ==
  \/ /\ stage = 0
     /\ \E x \in Stage1 : Valid1(x) /\ x1' = x
     /\ stage' = 1 /\ UNCHANGED <<x2, sem, dbg>>
  \/ /\ stage = 1
     /\ \E mAny \in BOOLEAN, ms \in MethodSets : (mAny => ms = {}) /\ x2' = [mAny |-> mAny, meths |-> ms]
     /\ stage' = 2 /\ UNCHANGED <<x1, sem, dbg>>
  \/ /\ stage = 2
     /\ \E s \in Sems(x1, x2.mAny, x2.meths), d \in BOOLEAN : sem' = s /\ dbg' = d
     /\ stage' = 3 /\ UNCHANGED <<x1, x2>>
  \/ /\ stage = 0            \* the passthrough middleware
     /\ stage' = 3 /\ sem' = PassSem /\ \E d \in {FALSE} : dbg' = d
     /\ UNCHANGED <<x1, x2>>
Spec == Init /\ [][Next]_vars

Complete == stage = 3

\* generator for binding G of C02: every complete semantic configuration, and (once) the intent universe
DumpSem == IF DumpSems /\ Complete /\ ~dbg /\ ~sem.pass
             THEN CSVWrite("%1$s", <<ToJson([sem EXCEPT !.meths = SetToSeqJ(sem.meths), !.hNames = SetToSeqJ(sem.hNames)])>>, IOEnv.OUT_FILE)
             ELSE TRUE

\* ---------------------------------------------------------------- C02
IntentOrigins == {oA, oB}
IntentMethods == {"GET", "PUT", "PATCH", "patch", "OPTIONS", "DELETE"}
Intents == { [origin |-> o, method |-> m, hdrs |-> h, include |-> inc, pna |-> p] :
               o \in IntentOrigins, m \in IntentMethods, h \in SUBSET {AUTH, "x-a", "x-b"},
               inc \in BOOLEAN, p \in BOOLEAN }

Verdict(s, d, i, pert) ==
  VerdictOn(i, Respond(s, d, PreflightReq(i, pert), NoHdrs), Respond(s, d, ActualReq(i), NoHdrs))

\* an unhandled response is produced by the wrapped handler: status 200 in this model
AsSeen(resp) == IF resp.handled THEN resp ELSE [resp EXCEPT !.status = 200]
VerdictSeen(s, d, i, pert) ==
  VerdictOn(i, AsSeen(Respond(s, d, PreflightReq(i, pert), NoHdrs)), AsSeen(Respond(s, d, ActualReq(i), NoHdrs)))

BrowserVerdictIsMeaning ==
  Complete => \A i \in Intents : \A pert \in Perturbations :
                 VerdictSeen(sem, dbg, i, pert) = Permits(sem, i)

\* ---------------------------------------------------------------- abstract request universe
E(n) == Elem(n, 0, 0)
AcrhChoices == { NoAcrh,
                 [present |-> TRUE, lines |-> <<>>],                         \* key present, zero field lines
                 [present |-> TRUE, lines |-> << <<E("x-a")>> >>],
                 [present |-> TRUE, lines |-> << <<E("x-a"), E("x-b")>> >>],
                 [present |-> TRUE, lines |-> << <<E("x-b"), E("x-a")>> >>], \* unsorted
                 [present |-> TRUE, lines |-> << <<E(AUTH)>>, <<E("x-z")>> >>] }
OriginChoices == { <<>>, <<oA>>, <<oB>>, <<oX>>, <<oA, oB>>, <<oB, oA>> } \cup (IF CBug = "f4" THEN {<<oF>>} ELSE {})
Reqs == { [method |-> m, origin |-> o, acrm |-> am, acrpn |-> ap, acrh |-> ah] :
            m \in {"GET", "OPTIONS", "PUT"}, o \in OriginChoices,
            am \in {<<>>, <<"GET">>, <<"PUT">>, <<"DELETE", "PUT">>}, ap \in {<<>>, <<"true">>, <<"false", "true">>},
            ah \in AcrhChoices }
Pres == { NoHdrs, ("Vary" :> <<"Accept-Encoding">>) @@ ("X-Pre" :> <<"1">>) @@ ("ACAO" :> <<"https://evil">>) }

ACNames == {"ACAO", "ACAC", "ACAM", "ACAH", "ACAPN", "ACMA", "ACEH"}
\* headers the middleware contributed: those whose value differs from the pre-set one
Contributed(resp, pre) == { k \in DOMAIN resp.hdrs : Get(resp.hdrs, k) # Get(pre, k) }

\* ---------------------------------------------------------------- C03
OriginOK(s, o) == o.wf /\ (s.any \/ o.member)
HeadersWellFormedFor(s, d, r) ==
  LET resp == Respond(s, d, r, NoHdrs)
      h    == resp.hdrs
      acao == Get(h, "ACAO")
      acac == Get(h, "ACAC")
      o1ok == r.origin # <<>> /\ OriginOK(s, r.origin[1])
  IN /\ Len(acao) <= 1
     /\ (acao # <<>> => \/ acao[1] = "*" /\ s.any /\ ~s.cred
                        \/ r.origin # <<>> /\ acao[1] = r.origin[1].txt /\ o1ok /\ acao[1] # "*")
     /\ (acac # <<>> => acac = <<"true">> /\ s.cred /\ acao # <<>> /\ acao[1] # "*" /\ o1ok)
     /\ ((~s.any /\ ~o1ok) => DOMAIN h \cap ACNames = {})
     /\ (DOMAIN h \cap {"ACAM", "ACAH", "ACAPN", "ACMA"} # {} => resp.handled)
     /\ ("ACEH" \in DOMAIN h => ~resp.handled /\ h["ACEH"] = <<s.expose>>)
     /\ ("ACMA" \in DOMAIN h => h["ACMA"] = MaxAgeValue(s))
HeadersWellFormed == Complete /\ ~sem.pass => \A r \in Reqs : HeadersWellFormedFor(sem, dbg, r)

\* ---------------------------------------------------------------- C09 (last sentence)
\* Reading (DESIGN.md, C09): debug may turn a FAILING preflight into an ok-status response with partial
\* headers, and it replaces the reflected Access-Control-Allow-Headers of a preflight by the full
\* configured list (the "full allowed-header list" diagnostic) - nothing else, on no other request.
DebugOnlyDiagnostics ==
  Complete => \A r \in Reqs : \A pre \in Pres :
    LET on == Respond(sem, TRUE, r, pre)  off == Respond(sem, FALSE, r, pre) IN
    on # off => /\ IsPreflight(r) /\ ~sem.pass
                /\ \/ /\ off.status = 403                                  \* a failing preflight
                      /\ DOMAIN off.hdrs \cap ACNames = DOMAIN pre \cap ACNames
                   \/ /\ off.status = on.status                             \* a succeeding one: only ACAH
                      /\ [k \in DOMAIN off.hdrs \ {"ACAH"} |-> off.hdrs[k]] = [k \in DOMAIN on.hdrs \ {"ACAH"} |-> on.hdrs[k]]
                      /\ Get(on.hdrs, "ACAH") = << Sorted(sem.hNames) >>

\* ---------------------------------------------------------------- C10
VaryNamesOf(v) == IF v = VaryOptions THEN {"ACRH", "ACRM", "ACRPN", "Origin"} ELSE {v}
VaryNames(resp) == UNION { VaryNamesOf(v) : v \in Range(Get(resp.hdrs, "Vary")) }
ReqHeader(r, n) == CASE n = "Origin" -> r.origin [] n = "ACRM" -> r.acrm [] n = "ACRPN" -> r.acrpn
                     [] n = "ACRH" -> r.acrh.lines [] OTHER -> <<>>
VarySufficient ==
  (Complete /\ CheckPairs) =>
    LET resp == [r \in Reqs |-> Respond(sem, dbg, r, NoHdrs)] IN
    \A r1 \in Reqs : LET names == VaryNames(resp[r1]) IN
      \A r2 \in Reqs :
        (r1.method = r2.method /\ \A n \in names : ReqHeader(r1, n) = ReqHeader(r2, n)) => resp[r1] = resp[r2]
VaryPreserved ==
  Complete => \A r \in Reqs : \A pre \in Pres :
    LET v == Get(Respond(sem, dbg, r, pre).hdrs, "Vary")  p == Get(pre, "Vary")
    IN Len(v) >= Len(p) /\ SubSeq(v, 1, Len(p)) = p

\* ---------------------------------------------------------------- C11
DispatchRule ==
  Complete => \A r \in Reqs : Respond(sem, dbg, r, NoHdrs).handled = (~sem.pass /\ IsPreflight(r))
OnlyDocumentedEdits ==
  Complete => \A r \in Reqs : \A pre \in Pres :
    LET resp == Respond(sem, dbg, r, pre) IN
    /\ (sem.pass => resp.hdrs = pre)
    /\ (~resp.handled => Contributed(resp, pre) \subseteq {"Vary", "ACAO", "ACAC", "ACEH"})
    /\ \A k \in DOMAIN pre : k \in DOMAIN resp.hdrs

\* ---------------------------------------------------------------- C16
Supplied(r) == {"*", "true"} \cup {o.txt : o \in Range(r.origin)} \cup Range(r.acrm)
               \cup { e.name : e \in UNION { Range(l) : l \in Range(r.acrh.lines) } }
NoDisclosure ==
  (Complete /\ ~dbg /\ ~sem.pass) => \A r \in { q \in Reqs : IsPreflight(q) } :
    LET resp == Respond(sem, FALSE, r, NoHdrs)
        toks == Range(Get(resp.hdrs, "ACAO")) \cup Range(Get(resp.hdrs, "ACAC")) \cup Range(Get(resp.hdrs, "ACAPN"))
                \cup TokenSet(resp, "ACAM") \cup TokenSet(resp, "ACAH")
        okSet == Supplied(r) \cup (IF ~sem.cred /\ sem.hStar /\ sem.hAuth THEN {AUTH} ELSE {})
    IN IF resp.status \in 200..299
         THEN toks \subseteq okSet /\ Get(resp.hdrs, "ACMA") = MaxAgeValue(sem)
         ELSE resp.status = 403 /\ DOMAIN resp.hdrs \cap ACNames = {}
=============================================================================
