------------------------- MODULE MwLockInductive -------------------------
(***************************************************************************)
(* Unbounded-history check (Apalache) of the lock discipline of            *)
(* MwLock.tla: for a fixed set of threads, ANY number of calls each and    *)
(* any history, the conjunction IndInv - the pc of a thread determines     *)
(* exactly which lock it holds, writers exclude readers and each other,    *)
(* a passthrough middleware has debug off - is an INDUCTIVE invariant of   *)
(* the lock-level protocol (threads return to "idle" and call again, which *)
(* the bounded TLC configurations of MwLock.tla do not explore).           *)
(* LockFreeOutside is a consequence of IndInv (Outside).                   *)
(*   apalache-mc check --init=Init    --inv=IndInv --length=0              *)
(*   apalache-mc check --init=IndInit --inv=IndInv --length=1              *)
(*   apalache-mc check --init=IndInit --inv=Outside --length=0             *)
(* Twin NextHold (`defer m.mu.RUnlock()`): IndInv is then not inductive.   *)
(***************************************************************************)
EXTENDS Naturals, FiniteSets

CONSTANTS
  \* @type: Set(Str);
  Threads,
  \* @type: Set(Str);
  Cfgs,
  \* @type: Str;
  Nil,
  \* @type: Str;
  None

VARIABLES
  \* @type: Str;
  icfg,
  \* @type: Bool;
  debug,
  \* @type: Str -> Str;
  pc,
  \* @type: Str -> Str;
  arg,
  \* @type: Set(Str);
  rd,
  \* @type: Str;
  wr,
  \* @type: Set(Str);
  wq

ConstInit == Threads = {"t1", "t2", "t3", "t4"} /\ Cfgs = {"A", "B"} /\ Nil = "nil" /\ None = "none"

PCs == {"idle", "rlock", "rheld", "runlock", "outside", "validate", "wlock", "wwait", "wheld", "wunlock"}
Args == Cfgs \cup {Nil, "invalid", "on", "off", "read"}

TypeOK ==
  /\ icfg \in Cfgs \cup {Nil} /\ debug \in BOOLEAN
  /\ pc \in [Threads -> PCs] /\ arg \in [Threads -> Args]
  /\ rd \in SUBSET Threads /\ wq \in SUBSET Threads /\ wr \in Threads \cup {None}

IndInv ==
  /\ TypeOK
  /\ \A t \in Threads : (t \in rd) <=> (pc[t] \in {"rheld", "runlock"})
  /\ \A t \in Threads : (wr = t) <=> (pc[t] \in {"wheld", "wunlock"})
  /\ \A t \in Threads : (t \in wq) <=> (pc[t] = "wwait")
  /\ wr # None => rd = {}
  /\ \A t \in Threads : pc[t] \in {"wlock", "wwait", "wheld"} => arg[t] \in Cfgs \cup {Nil, "on", "off"}
  /\ \A t \in Threads : pc[t] = "validate" => arg[t] \in Cfgs \cup {Nil, "invalid"}
  /\ icfg = Nil => ~debug
\* no lock is held across validation, w.Header(), the wrapped handler, rendering - nor before an acquire, nor between calls
Outside == \A t \in Threads : pc[t] \in {"idle", "rlock", "outside", "validate", "wlock"} => (t \notin rd /\ wr # t)

Init == /\ icfg \in Cfgs \cup {Nil} /\ debug = FALSE
        /\ pc = [t \in Threads |-> "idle"] /\ arg = [t \in Threads |-> "read"]
        /\ rd = {} /\ wr = None /\ wq = {}
IndInit == IndInv

Goto(t, p) == pc' = [pc EXCEPT ![t] = p]
Same == UNCHANGED <<icfg, debug>>
\* a thread starts a request or Config() (a read section), a Reconfigure (validation first) or a SetDebug
StartRead(t) == pc[t] = "idle" /\ Goto(t, "rlock") /\ arg' = [arg EXCEPT ![t] = "read"] /\ Same /\ UNCHANGED <<rd, wr, wq>>
StartReconf(t, c) == pc[t] = "idle" /\ Goto(t, "validate") /\ arg' = [arg EXCEPT ![t] = c] /\ Same /\ UNCHANGED <<rd, wr, wq>>
StartSetDebug(t, b) == pc[t] = "idle" /\ Goto(t, "wlock") /\ arg' = [arg EXCEPT ![t] = IF b THEN "on" ELSE "off"] /\ Same /\ UNCHANGED <<rd, wr, wq>>
Validate(t) == pc[t] = "validate" /\ Goto(t, IF arg[t] = "invalid" THEN "idle" ELSE "wlock") /\ Same /\ UNCHANGED <<arg, rd, wr, wq>>
RLock(t) == pc[t] = "rlock" /\ wr = None /\ wq = {} /\ rd' = rd \cup {t} /\ Goto(t, "rheld") /\ Same /\ UNCHANGED <<arg, wr, wq>>
ReadState(t) == pc[t] = "rheld" /\ Goto(t, "runlock") /\ Same /\ UNCHANGED <<arg, rd, wr, wq>>
RUnlock(t) == pc[t] = "runlock" /\ rd' = rd \ {t} /\ Goto(t, "outside") /\ Same /\ UNCHANGED <<arg, wr, wq>>
Return(t) == pc[t] = "outside" /\ Goto(t, "idle") /\ Same /\ UNCHANGED <<arg, rd, wr, wq>>
Announce(t) == pc[t] = "wlock" /\ wq' = wq \cup {t} /\ Goto(t, "wwait") /\ Same /\ UNCHANGED <<arg, rd, wr>>
Acquire(t) == pc[t] = "wwait" /\ wr = None /\ rd = {} /\ wr' = t /\ wq' = wq \ {t} /\ Goto(t, "wheld") /\ Same /\ UNCHANGED <<arg, rd>>
WriteState(t) ==
  /\ pc[t] = "wheld" /\ Goto(t, "wunlock")
  /\ IF arg[t] \in {"on", "off"}
       THEN icfg' = icfg /\ debug' = ((arg[t] = "on") /\ icfg # Nil)
       ELSE icfg' = arg[t] /\ debug' = ((arg[t] # Nil) /\ debug)
  /\ UNCHANGED <<arg, rd, wr, wq>>
Unlock(t) == pc[t] = "wunlock" /\ wr' = None /\ Goto(t, "idle") /\ Same /\ UNCHANGED <<arg, rd, wq>>

Step(t) == \/ StartRead(t) \/ (\E c \in Cfgs \cup {Nil, "invalid"} : StartReconf(t, c)) \/ (\E b \in BOOLEAN : StartSetDebug(t, b))
           \/ Validate(t) \/ RLock(t) \/ ReadState(t) \/ RUnlock(t) \/ Return(t)
           \/ Announce(t) \/ Acquire(t) \/ WriteState(t) \/ Unlock(t)
Next == \E t \in Threads : Step(t)

\* twin: the read lock is released when the request is over
ReadStateHold(t) == pc[t] = "rheld" /\ Goto(t, "outside") /\ Same /\ UNCHANGED <<arg, rd, wr, wq>>
ReturnHold(t) == pc[t] = "outside" /\ rd' = rd \ {t} /\ Goto(t, "idle") /\ Same /\ UNCHANGED <<arg, wr, wq>>
NextHold == \E t \in Threads : Step(t) \/ ReadStateHold(t) \/ ReturnHold(t)
=============================================================================
