SPECIFICATION Spec
CONSTANTS
  Nil = "nil"
  MBug = "none"
INVARIANT Final
CHECK_DEADLOCK FALSE
VIEW TraceView
