----------------------------- MODULE TraceCost -----------------------------
(***************************************************************************)
(* Trace specification for C17 and C18.                                    *)
(*                                                                         *)
(* C17: no "Panic" event may occur (every call of the public API returns). *)
(* C18: the specification contributes a COST ANNOTATION of Cors!Respond:   *)
(*   every path (configuration kind x debug x request method x field x     *)
(*   shape of the attacker-controlled value) has a size-free allocation    *)
(*   budget.  For the measured ladder of sizes of one path the monitor     *)
(*   requires  allocs(size) <= allocs(smallest size) + Slack  and          *)
(*   allocs(size) <= Budget.                                               *)
(* TLA+ says nothing about Go's allocator: the deciding fact is the        *)
(* measurement; the specification supplies the path structure and the      *)
(* size-free bound.                                                        *)
(***************************************************************************)
EXTENDS Naturals, Sequences, FiniteSets, TLC, Json, IOUtils

CONSTANTS Slack, Budget

Trace == ndJsonDeserialize(IOEnv.TRACE_FILE)
VARIABLES l, base, bad, stats
vars == <<l, base, bad, stats>>
\* The monitor is a deterministic chain, one state per consumed event: fingerprinting the position alone (cfg: VIEW TraceView)
\* keeps validation linear however large `bad`, the references or the block grow.
TraceView == l

Put(f, k, v) == [x \in DOMAIN f \cup {k} |-> IF x = k THEN v ELSE f[x]]

Alloc == /\ l <= Len(Trace) /\ Trace[l].ev = "Alloc" /\ l' = l + 1
         /\ LET e == Trace[l]  path == <<e.cfg, e.dbg, e.field, e.shape, e.method>> IN
            /\ base' = IF path \in DOMAIN base THEN base ELSE Put(base, path, e.allocs)     \* the ladder starts at the smallest size
            /\ bad' = (IF path \in DOMAIN base /\ e.allocs > base[path] + Slack
                         THEN {<<l, "allocations grow with the size of an attacker-controlled field">>} ELSE {})
                      \cup (IF e.allocs > Budget THEN {<<l, "allocation budget of the path exceeded">>} ELSE {})
                      \cup bad
            /\ stats' = [stats EXCEPT !.measurements = @ + 1, !.maxAllocs = IF e.allocs > @ THEN e.allocs ELSE @]
Panic == /\ l <= Len(Trace) /\ Trace[l].ev = "Panic" /\ l' = l + 1
         /\ bad' = bad \cup {<<l, "panic">>} /\ stats' = [stats EXCEPT !.panics = @ + 1] /\ UNCHANGED base
Other == /\ l <= Len(Trace) /\ Trace[l].ev \notin {"Alloc", "Panic"} /\ l' = l + 1 /\ UNCHANGED <<base, bad, stats>>
Init == l = 1 /\ base = [x \in {} |-> 0] /\ bad = {} /\ stats = [measurements |-> 0, maxAllocs |-> 0, panics |-> 0]
Spec == Init /\ [][Alloc \/ Panic \/ Other]_vars
Final == (l = Len(Trace) + 1) =>
           JsonSerialize(IOEnv.RESULT_FILE, [bad |-> bad, consumed |-> l - 1, total |-> Len(Trace), stats |-> stats, paths |-> Cardinality(DOMAIN base)])
=============================================================================
