---------------------------- MODULE TraceBrowser ----------------------------
(***************************************************************************)
(* Trace specification for C02 (binding T).  Each "Fetch" event holds a    *)
(* browser request intent and the two REAL responses (CORS-preflight and   *)
(* actual request) that the real middleware gave under the configuration   *)
(* of the last "Config" event.  TLC runs the Fetch algorithms of           *)
(* Browser.tla on the recorded responses and compares the browser's        *)
(* verdict with Permits(sem, intent); the origin's membership is decided   *)
(* by Origins!Allowed on logged components.  Total monitor: offending      *)
(* event indices are collected in `bad`.                                   *)
(***************************************************************************)
EXTENDS Browser, Origins, Json, IOUtils

Trace == ndJsonDeserialize(IOEnv.TRACE_FILE)
NameOrderDef == <<>>   \* not used by the browser algorithms
AcrhOKUnused(s, r) == TRUE
AcrhEchoUnused(r) == <<>>

VARIABLES l, sem, pats, bad, nPre, nYes
vars == <<l, sem, pats, bad, nPre, nYes>>
\* The monitor is a deterministic chain, one state per consumed event: fingerprinting the position alone (cfg: VIEW TraceView)
\* keeps validation linear however large `bad`, the references or the block grow.
TraceView == l

Ev(e) == l <= Len(Trace) /\ Trace[l].ev = e /\ l' = l + 1

SemOf(j) == [pass |-> j.pass, any |-> j.any, cred |-> j.cred, mAny |-> j.mAny, meths |-> Range(j.meths),
             hStar |-> j.hStar, hAuth |-> j.hAuth, hNames |-> Range(j.hNames), maxAge |-> j.maxAge,
             expose |-> j.expose, status |-> j.status, pna |-> j.pna]
PatsOf(j) == { [scheme |-> p.scheme, wild |-> p.wild, host |-> p.host, port |-> p.port] : p \in Range(j.pats) }

Config == /\ Ev("Config")
          /\ sem' = SemOf(Trace[l].sem) /\ pats' = PatsOf(Trace[l].sem)
          /\ UNCHANGED <<bad, nPre, nYes>>
Rejected == Ev("Rejected") /\ UNCHANGED <<sem, pats, bad, nPre, nYes>>

Fetch ==
  /\ Ev("Fetch")
  /\ LET e == Trace[l]
         o == [scheme |-> e.origin.scheme, host |-> e.origin.host, port |-> e.origin.port]
         i == [origin  |-> [txt |-> e.origin.txt, wf |-> TRUE, parse |-> TRUE, member |-> Allowed(pats, o)],
               method  |-> e.method, hdrs |-> Range(e.hdrs), include |-> e.include, pna |-> e.pna]
         got  == VerdictOn(i, e.pre, e.act)
         want == Permits(sem, i)
     IN /\ bad' = IF got = want THEN bad ELSE bad \cup {l}
        /\ nPre' = IF NeedsPreflight(i) THEN nPre + 1 ELSE nPre
        /\ nYes' = IF want THEN nYes + 1 ELSE nYes
  /\ UNCHANGED <<sem, pats>>

Init == l = 1 /\ sem = [pass |-> TRUE] /\ pats = {} /\ bad = {} /\ nPre = 0 /\ nYes = 0
Next == Config \/ Rejected \/ Fetch
Spec == Init /\ [][Next]_vars

Final == (l = Len(Trace) + 1) =>
           JsonSerialize(IOEnv.RESULT_FILE, [bad |-> bad, consumed |-> l - 1, total |-> Len(Trace), preflighted |-> nPre, permitted |-> nYes])
=============================================================================
