SPECIFICATION Spec
CONSTANTS
  Nil = "nil"
  MBug = "none"
  RequireDistinct = FALSE
INVARIANT Final
CHECK_DEADLOCK FALSE
VIEW TraceView
