SPECIFICATION Spec
CONSTANTS
  Cfgs = {"A", "B"}
  Nil = "nil"
  Invalid = "invalid"
  Reqs = {"r1", "r2"}
  Writers = {"w1", "w2"}
  MBug = "none"
INVARIANTS TypeOK PassthroughHasDebugOff Atomic ConfigAtomic
PROPERTIES RejectedIsNoOp DebugMachine
CHECK_DEADLOCK FALSE
