--------------------------- MODULE TraceMiddleware ---------------------------
(***************************************************************************)
(* Trace specification for C07 (binding S/T).  The schedule controller     *)
(* runs 2-3 logical threads of REAL goroutines one at a time, from gate to *)
(* gate (mutex acquire/release, ResponseWriter.Header/WriteHeader/Write,   *)
(* entry of the wrapped handler), and enumerates their interleavings.      *)
(* Because exactly one thread runs at a time, the order of the recorded    *)
(* events IS the order of execution:                                       *)
(*   Ref / CfgRef : responses / Config() renderings of fresh sequential    *)
(*                  middlewares, per abstract state and request kind       *)
(*   Sched        : a new schedule starts in state (icfg, debug)           *)
(*   Begin(t)     : thread t takes its first step                          *)
(*   Commit(t,op) : a write section of writer t completed (logged at the   *)
(*                  Unlock:post gate, i.e. stamped under the lock)         *)
(*   End(t, fp)   : t finished; fp = fingerprint of the response, or of    *)
(*                  the Config() value                                     *)
(* The monitor steps MwState's transitions at Commit events and maintains, *)
(* for every thread in flight, window[t] = the set of states current since *)
(* Begin(t) (Middleware.tla's history variable).  Atomic: a request's      *)
(* response must be the reference response of ONE state of its window; a   *)
(* Config() value must be the rendering of the configuration of one.       *)
(***************************************************************************)
EXTENDS Naturals, Sequences, FiniteSets, TLC, Json, IOUtils, MwState

Trace == ndJsonDeserialize(IOEnv.TRACE_FILE)

VARIABLES l, st, window, ref, cfgref, bad, stats
vars == <<l, st, window, ref, cfgref, bad, stats>>
\* The monitor is a deterministic chain, one state per consumed event: fingerprinting the position alone (cfg: VIEW TraceView)
\* keeps validation linear however large `bad`, the references or the block grow.
TraceView == l

Ev(e) == l <= Len(Trace) /\ Trace[l].ev = e /\ l' = l + 1
EmptyFn == [x \in {} |-> x]
Put(f, k, v) == [x \in DOMAIN f \cup {k} |-> IF x = k THEN v ELSE f[x]]
Del(f, k) == [x \in DOMAIN f \ {k} |-> f[x]]

Ref == /\ Ev("Ref")
       /\ ref' = Put(ref, <<Trace[l].icfg, Trace[l].debug, Trace[l].req>>, Trace[l].fp)
       /\ UNCHANGED <<st, window, cfgref, bad, stats>>
CfgRef == /\ Ev("CfgRef")
          /\ cfgref' = Put(cfgref, Trace[l].icfg, Trace[l].fp)
          /\ UNCHANGED <<st, window, ref, bad, stats>>
Sched == /\ Ev("Sched")
         /\ st' = [icfg |-> Trace[l].icfg, debug |-> Trace[l].debug]
         /\ window' = EmptyFn
         /\ stats' = [stats EXCEPT !.schedules = @ + 1]
         /\ UNCHANGED <<ref, cfgref, bad>>
Begin == /\ Ev("Begin")
         /\ window' = Put(window, Trace[l].t, {st})
         /\ UNCHANGED <<st, ref, cfgref, bad, stats>>

Apply(s, op) ==
  CASE op = "reconf:A" -> CommitState(s, "A")
    [] op = "reconf:B" -> CommitState(s, "B")
    [] op = "reconf:nil" -> CommitState(s, Nil)
    [] op = "setdebug:true" -> SetDebugState(s, TRUE)
    [] op = "setdebug:false" -> SetDebugState(s, FALSE)
    [] OTHER -> s
Commit == /\ Ev("Commit")
          /\ st' = Apply(st, Trace[l].op)
          /\ window' = [t \in DOMAIN window |-> window[t] \cup {st'}]     \* Publish
          /\ stats' = [stats EXCEPT !.commits = @ + 1]
          /\ UNCHANGED <<ref, cfgref, bad>>

\* Conformance with MwLock.tla (a drift report, never a verdict): the gates a call went through, in order, must be the lock program of
\* its method - ONE read section for a request and for Config(), ONE write section for an accepted Reconfigure and for SetDebug, none
\* for a rejected Reconfigure - and everything that touches the outside (w.Header(), WriteHeader, Write, the wrapped handler) comes after
\* the section, with no lock operation or atomic in between (MwLock!LockFreeOutside).
Outside == {"Header", "WriteHeader", "Write", "Handler"}
LockProgram(e) == CASE e.kind \in {"request", "config"} -> <<"RLock:pre", "RUnlock:post">>
                    [] e.kind = "reconf" /\ e.err -> <<>>
                    [] OTHER -> <<"Lock:pre", "Unlock:post">>
FollowsLockProgram(e) ==
  LET p == LockProgram(e)  g == e.gl IN
  /\ Len(g) >= Len(p) /\ SubSeq(g, 1, Len(p)) = p
  /\ \A i \in (Len(p) + 1)..Len(g) : g[i] \in Outside /\ e.kind = "request"

End ==
  /\ Ev("End")
  /\ LET e == Trace[l]  w == window[e.t] IN
     /\ bad' =
          IF e.kind = "request"
            THEN IF \E s \in w : ref[<<s.icfg, s.debug, e.req>>] = e.fp THEN bad
                 ELSE bad \cup {<<l, "the response is not the response of any single state that was current during the request">>}
          ELSE IF e.kind = "config"
            THEN IF \E s \in w : cfgref[s.icfg] = e.fp THEN bad
                 ELSE bad \cup {<<l, "Config() is not the normal form of any state that was current during the call">>}
          ELSE IF e.kind = "reconf" /\ e.err # (e.op = "reconf:invalid")
            THEN bad \cup {<<l, "Reconfigure returned the wrong kind of result">>}
          \* the call wrote nothing (no write section, no atomic store): it can be linearised at any point of its duration, so it
          \* is right exactly when it is a no-op in SOME state that was current while it ran
          ELSE IF e.kind \in {"reconf", "setdebug"} /\ e.nowrite /\ ~(\E s \in w : Apply(s, e.op) = s)
            THEN bad \cup {<<l, "the call returned without changing anything although it is not a no-op in any state that was current during the call">>}
          ELSE bad
     /\ stats' = [stats EXCEPT !.requests = @ + (IF e.kind = "request" THEN 1 ELSE 0),
                               !.raced = @ + (IF e.kind = "request" /\ Cardinality(w) > 1 THEN 1 ELSE 0),
                               !.lockchecked = @ + (IF e.lockchk THEN 1 ELSE 0),
                               !.lockdrift = IF e.lockchk /\ ~FollowsLockProgram(e) /\ Cardinality(@) < 20 THEN @ \cup {l} ELSE @]
     /\ window' = Del(window, e.t)
  /\ UNCHANGED <<st, ref, cfgref>>

Blocked == /\ Ev("Blocked")
           /\ bad' = bad \cup {<<l, "a thread blocked: a lock is held across an interaction with the outside">>}
           /\ UNCHANGED <<st, window, ref, cfgref, stats>>

\* a request or a method call panicked in this schedule (C17; also no response reached the client)
Panic == /\ Ev("Panic")
         /\ bad' = bad \cup {<<l, "panic in a scheduled thread">>}
         /\ UNCHANGED <<st, window, ref, cfgref, stats>>

Init == l = 1 /\ st = ZeroState /\ window = EmptyFn /\ ref = EmptyFn /\ cfgref = EmptyFn /\ bad = {}
        /\ stats = [schedules |-> 0, commits |-> 0, requests |-> 0, raced |-> 0, lockchecked |-> 0, lockdrift |-> {}]
Next == Ref \/ CfgRef \/ Sched \/ Begin \/ Commit \/ End \/ Blocked \/ Panic
Spec == Init /\ [][Next]_vars

Final == (l = Len(Trace) + 1) =>
           JsonSerialize(IOEnv.RESULT_FILE, [bad |-> bad, consumed |-> l - 1, total |-> Len(Trace), stats |-> stats])
=============================================================================
