SPECIFICATION Spec
CONSTANTS
  MaxOWS = 1
  MaxEmpty = 2
  ABug = "none"
  MaxLines = 2
  MaxBytes = 5
  DumpCases = FALSE
INVARIANTS Equiv AllInBounds Sound BrowserComplete
CONSTRAINT Dump
CHECK_DEADLOCK FALSE
