------------------------------ MODULE ConfigMC ------------------------------
(***************************************************************************)
(* Bounded configuration of Config.tla and generator for binding G         *)
(* (C04 / C05).  Three families of configurations are enumerated through   *)
(* Next (so that all workers share the work):                              *)
(*   "origins" : every list of <= MaxList origin atoms x the 32            *)
(*               combinations of the five switches                         *)
(*   "lists"   : every combination of lists of <= MaxList atoms for        *)
(*               Methods / RequestHeaders / ResponseHeaders x Credentialed *)
(*   "ints"    : boundary values of MaxAgeInSeconds x                      *)
(*               PreflightSuccessStatus                                    *)
(* Model-level property: the two independent formulations agree -          *)
(* a configuration has no expected violation exactly when it violates no   *)
(* documented prohibition.                                                 *)
(***************************************************************************)
EXTENDS Config, CSV, IOUtils

CONSTANTS MaxList, DumpCases

Ids(field) == { AtomTable[i].id : i \in { i \in DOMAIN AtomTable : AtomTable[i].field = field } }
Lists(field) == UNION { [1..n -> Ids(field)] : n \in 0..MaxList }
Ent(ids) == [i \in DOMAIN ids |-> [a |-> ids[i], v |-> AtomById[ids[i]].spellings[1]]]

Base == [origins |-> Ent(<<"o_https">>), methods |-> <<>>, reqh |-> <<>>, resph |-> <<>>,
         cred |-> FALSE, pna |-> FALSE, nocors |-> FALSE, tolInsecure |-> FALSE, tolPSL |-> FALSE,
         maxAge |-> 0, status |-> 0]

VARIABLES fam, cfg
vars == <<fam, cfg>>

Init == fam = "start" /\ cfg = Base
Next ==
  /\ fam = "start"
  /\ \/ /\ fam' = "origins"
        /\ \E os \in Lists("origins"), cr, pn, nc, ti, tp \in BOOLEAN :
             cfg' = [Base EXCEPT !.origins = Ent(os), !.cred = cr, !.pna = pn, !.nocors = nc, !.tolInsecure = ti, !.tolPSL = tp]
     \/ /\ fam' = "lists"
        /\ \E ms \in Lists("methods"), hs \in Lists("reqh"), es \in Lists("resph"), cr \in BOOLEAN :
             cfg' = [Base EXCEPT !.methods = Ent(ms), !.reqh = Ent(hs), !.resph = Ent(es), !.cred = cr]
     \/ /\ fam' = "ints"
        /\ \E ma \in {-2, -1, 0, 1, 86400, 86401}, st \in {-1, 0, 199, 200, 204, 299, 300} :
             cfg' = [Base EXCEPT !.maxAge = ma, !.status = st]
Spec == Init /\ [][Next]_vars

FormulationsAgree == Acceptable(cfg) = NoProhibitionViolated(cfg)
BaseIsAcceptable == fam = "start" => Acceptable(cfg)

Compact(c) == [o |-> [i \in DOMAIN c.origins |-> c.origins[i].a], m |-> [i \in DOMAIN c.methods |-> c.methods[i].a],
               h |-> [i \in DOMAIN c.reqh |-> c.reqh[i].a], e |-> [i \in DOMAIN c.resph |-> c.resph[i].a],
               s |-> <<c.cred, c.pna, c.nocors, c.tolInsecure, c.tolPSL>>, a |-> c.maxAge, t |-> c.status,
               ok |-> Acceptable(c)]
Dump == IF DumpCases /\ fam # "start" THEN CSVWrite("%1$s", <<ToJson(Compact(cfg))>>, IOEnv.OUT_FILE) ELSE TRUE
=============================================================================
