------------------------------- MODULE Radix -------------------------------
(***************************************************************************)
(* Implementation-shaped model of internal/origins/radix.go: one operator  *)
(* per Go function, the code's port encoding (portOffset / wildcardPort),  *)
(* deleteSameSign, the subsumption short-cut and the suffix split into     *)
(* child' / grandChild1 / grandChild2.  TLC checks that this algorithm     *)
(* REFINES the meaning given in Origins.tla (Allowed) for every insertion  *)
(* sequence over a bounded byte universe; the same universe is replayed    *)
(* through the real middleware (binding G, see RadixMC.tla).               *)
(*                                                                         *)
(* A tree node is [suf, kids, ents]:                                       *)
(*   suf  : Seq(byte)            the node's own suffix (as in node.suf)    *)
(*   kids : byte -> node         edges keyed by the LAST byte of kid.suf   *)
(*   ents : scheme -> SUBSET Int signed port codes (node.schemes/ports);   *)
(*                               the code keeps sorted slices (a repeated  *)
(*                               wildcard-subs entry may appear twice -    *)
(*                               see DESIGN C06 note); sets lose only that *)
(*                               multiplicity.                             *)
(* The constant Bug selects a deliberately broken variant ("negative       *)
(* twin") which TLC must reject; Bug = "none" is the code as it is.        *)
(***************************************************************************)
EXTENDS Integers, Sequences, FiniteSets, TLC, Origins

CONSTANT Bug

WILDPORT == 65536                 \* wildcardPort  = math.MaxUint16 + 1
OFFSET   == 65537                 \* portOffset    = wildcardPort + 1

EmptyFn == [x \in {} |-> x]
NewNode(suf) == [suf |-> suf, kids |-> EmptyFn, ents |-> EmptyFn]

DropLast(s, k) == SubSeq(s, 1, Len(s) - k)
TakeLast(s, k) == SubSeq(s, Len(s) - k + 1, Len(s))

RECURSIVE CSL(_, _, _)
CSL(a, b, k) ==                    \* length of the longest common suffix, counting from k
  IF k < Len(a) /\ k < Len(b) /\ a[Len(a) - k] = b[Len(b) - k] THEN CSL(a, b, k + 1) ELSE k
CommonSufLen(a, b) == CSL(a, b, 0)  \* splitAtCommonSuffix

\* node.contains(scheme, port, wildcardSubs): `port` is shifted when wildcardSubs.
NodeContainsRaw(n, sch, port, wild) ==
  LET p  == IF wild THEN port - OFFSET ELSE port
      wp == IF wild THEN WILDPORT - OFFSET ELSE WILDPORT
  IN sch \in DOMAIN n.ents /\ (p \in n.ents[sch] \/ (Bug # "wildPortExact" /\ wp \in n.ents[sch]))

NodeContains(n, sch, port, wild) == NodeContainsRaw(n, sch, port, wild)

\* node.add(scheme, port, wildcardSubs).  Faithful to the code, including the fact that
\* add shifts the port and then calls contains, which shifts it again (so for wildcard-subs
\* entries the duplicate/subsumption test inside add never fires).
NodeAdd(n, sch, port, wild) ==
  LET p  == IF wild THEN port - OFFSET ELSE port
      wp == IF wild THEN WILDPORT - OFFSET ELSE WILDPORT
  IN IF NodeContainsRaw(n, sch, p, wild) THEN n
     ELSE IF sch \notin DOMAIN n.ents
            THEN [n EXCEPT !.ents = (sch :> {p}) @@ n.ents]
            ELSE LET old  == n.ents[sch]
                     kept == IF p = wp                         \* deleteSameSign(ports, port)
                               THEN IF Bug = "delSign"
                                      THEN (IF p < 0 THEN {x \in old : x < 0} ELSE {x \in old : x >= 0})
                                      ELSE (IF p < 0 THEN {x \in old : x >= 0} ELSE {x \in old : x < 0})
                               ELSE old
                 IN [n EXCEPT !.ents[sch] = kept \cup {p}]

RECURSIVE InsAt(_, _, _, _, _)
InsAt(n, s, sch, port, wild) ==
  IF s = <<>> THEN NodeAdd(n, sch, port, wild)
  ELSE IF Bug # "noSubsume" /\ NodeContains(n, sch, port, TRUE) THEN n     \* subsumption short-cut
  ELSE LET lab == s[Len(s)] IN
    IF lab \notin DOMAIN n.kids
      THEN [n EXCEPT !.kids = (lab :> NodeAdd(NewNode(s), sch, port, wild)) @@ n.kids]
      ELSE LET child == n.kids[lab]
               k     == CommonSufLen(s, child.suf)
               preS  == DropLast(s, k)
               preC  == DropLast(child.suf, k)
           IN IF preC = <<>>                                          \* child.suf is a suffix of s
                THEN [n EXCEPT !.kids[lab] = InsAt(child, preS, sch, port, wild)]
                ELSE LET g1 == [child EXCEPT !.suf = preC]           \* split
                         c0 == [suf  |-> TakeLast(s, k),
                                kids |-> (preC[Len(preC)] :> g1),
                                ents |-> EmptyFn]
                         c1 == IF preS = <<>>
                                 THEN NodeAdd(c0, sch, port, IF Bug = "splitFlag" THEN FALSE ELSE wild)
                                 ELSE [c0 EXCEPT !.kids =
                                         (preS[Len(preS)] :> NodeAdd(NewNode(preS), sch, port, wild)) @@ c0.kids]
                     IN [n EXCEPT !.kids[lab] = c1]

\* Tree.Insert: the path of a `*.base` pattern is ".base" (the asterisk is dropped, the dot kept).
PathOf(p) == IF p.wild /\ Bug # "noDot" THEN <<DOT>> \o p.host ELSE p.host
TreeInsert(t, p) == InsAt(t, PathOf(p), p.scheme, p.port, p.wild)

RECURSIVE ContainsAt(_, _, _, _)
ContainsAt(n, host, sch, port) ==
  IF host = <<>>
    THEN NodeContains(n, sch, port, FALSE) \/ (Bug = "wildExact" /\ NodeContains(n, sch, port, TRUE))
  ELSE IF Bug # "noWalk" /\ NodeContains(n, sch, port, TRUE) THEN TRUE   \* wildcard-subs entry, only while bytes remain
  ELSE LET lab == host[Len(host)] IN
    IF lab \notin DOMAIN n.kids THEN FALSE
    ELSE LET c == n.kids[lab]
             k == CommonSufLen(host, c.suf)
         IN IF (IF Bug = "k0" THEN k = 0 ELSE k # Len(c.suf)) THEN FALSE
            ELSE ContainsAt(c, DropLast(host, k), sch, port)

TreeContains(t, o) == ContainsAt(t, o.host, o.scheme, o.port)

\* Tree.Elems as a set of patterns (Config() renders these).
RECURSIVE ElemsAt(_, _)
ElemsAt(n, suf) ==
  LET full == n.suf \o suf
      mine == UNION { { [scheme |-> sch,
                         wild   |-> c < 0,
                         host   |-> IF c < 0 THEN Tail(full) ELSE full,
                         port   |-> IF c < 0 THEN c + OFFSET ELSE c] : c \in n.ents[sch] }
                      : sch \in DOMAIN n.ents }
  IN mine \cup UNION { ElemsAt(n.kids[b], full) : b \in DOMAIN n.kids }
TreeElems(t) == ElemsAt(t, <<>>)

(***************************************************************************)
(* Structural invariants of the Go data structure.                         *)
(***************************************************************************)
RECURSIVE WellFormedAt(_, _)
WellFormedAt(n, isRoot) ==
  /\ (isRoot => n.suf = <<>>)
  /\ (~isRoot => n.suf # <<>>)
  /\ \A b \in DOMAIN n.kids :
        LET c == n.kids[b] IN
        /\ c.suf # <<>> /\ c.suf[Len(c.suf)] = b          \* edge label = last byte of child.suf
        /\ WellFormedAt(c, FALSE)
  /\ \A s \in DOMAIN n.ents : n.ents[s] # {}
  /\ (~isRoot => (DOMAIN n.kids # {} \/ DOMAIN n.ents # {}))   \* no dead leaves
  /\ \A s \in DOMAIN n.ents : \A c \in n.ents[s] : c \in (0 - OFFSET)..WILDPORT
=============================================================================
