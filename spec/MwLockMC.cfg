SPECIFICATION Spec
CONSTANTS
  Cfgs = {"A", "B"}
  Nil = "nil"
  Invalid = "invalid"
  Reqs = {"r1", "r2"}
  Writers = {"w1", "w2"}
  Host = "r1"
  Nested = {"w2"}
  MBug = "none"
  LBug = "none"
INVARIANTS TypeOK MutualExclusion LockFreeOutside HoldsWhereItShould PassthroughHasDebugOff AbsAtomic AbsConfigAtomic
PROPERTIES Refinement
CHECK_DEADLOCK TRUE
