----------------------------- MODULE PatternMC -----------------------------
(***************************************************************************)
(* Enumerates (binding G for C13) every by-construction-valid component    *)
(* combination - including every length maximum at once - and every        *)
(* SINGLE-DEFECT mutation of each, and checks the consistency of the       *)
(* component model: every generated "valid" combination satisfies Valid,   *)
(* every single-defect mutation falsifies it.                              *)
(***************************************************************************)
EXTENDS Pattern, Json, CSV, IOUtils

CONSTANT DumpCases

Sch(cls, n) == [cls |-> cls, len |-> n]
Host(kind, defect, n, ml, td) == [kind |-> kind, defect |-> defect, len |-> n, maxlabel |-> ml, tdot |-> td]
Port(kind, v, d, lz) == [kind |-> kind, val |-> v, digits |-> d, leadzero |-> lz]

GoodSchemes == {Sch("http", 4), Sch("https", 5)} \cup {Sch("custom", n) : n \in {1, 2, 10, 63, 64}}
GoodDomainHosts == {Host("domain", "none", n, ml, td) : n \in {1, 11, 63, 64, 250, 251, 252, 253}, ml \in {63}, td \in BOOLEAN}
                   \cup {Host("puny", "none", 22, 15, td) : td \in BOOLEAN} \cup {Host("localhost", "none", 9, 9, FALSE)}
GoodIPHosts == {Host("ipv4", "none", 9, 3, FALSE), Host("ipv6", "none", 5, 3, FALSE), Host("ipv6", "none", 41, 4, FALSE)}
GoodPorts(cls) == {Port("none", 0, 0, FALSE), Port("star", 0, 0, FALSE), Port("num", 1, 1, FALSE), Port("num", 8080, 4, FALSE), Port("num", 65535, 5, FALSE)}
                  \cup (IF cls = "http" THEN {Port("num", 443, 3, FALSE)} ELSE {Port("num", 80, 2, FALSE)})

Mk(s, w, h, p, t) == [scheme |-> s, sep |-> "ok", wild |-> w, host |-> h, port |-> p, tail |-> t]

\* maxlabel must fit the host length
Fit(h) == IF h.kind = "domain" THEN [h EXCEPT !.maxlabel = IF h.len < 63 THEN h.len ELSE 63] ELSE h

ValidCombos ==
  { Mk(s, "none", Fit(h), p, "none") : s \in GoodSchemes, h \in GoodDomainHosts \cup GoodIPHosts, p \in GoodPorts("x") \cup GoodPorts("http") }
  \cup { Mk(s, "lead", Fit(h), p, "none") : s \in GoodSchemes, h \in {x \in GoodDomainHosts : x.len <= 251}, p \in GoodPorts("x") \cup GoodPorts("http") }
Good == { c \in ValidCombos : Valid(c) }     \* drops default ports for the scheme at hand

\* single-defect mutations of a valid combination
Defects(c) ==
  { [c EXCEPT !.scheme = s] : s \in {Sch("file", 4), Sch("empty", 0), Sch("badfirst", 5), Sch("badlater", 5), Sch("custom", 65)} }
  \cup { [c EXCEPT !.sep = x] : x \in {"colon", "single", "none"} }
  \cup { [c EXCEPT !.wild = x] : x \in {"inner", "partial", "bare", "double"} }
  \cup (IF c.host.kind \in DomainKinds
          THEN { [c EXCEPT !.host.defect = d] : d \in {"unicode", "upper", "space", "emptylabel", "leaddot"} }
               \cup (IF c.host.kind = "puny" THEN { [c EXCEPT !.host.defect = "badpuny"] } ELSE {})
               \cup (IF c.host.kind = "domain" /\ c.host.len >= 64 THEN { [c EXCEPT !.host.maxlabel = 64] } ELSE {})
               \cup (IF c.host.kind = "domain" THEN { [c EXCEPT !.host.len = 254, !.host.maxlabel = 63] } ELSE {})
               \cup (IF c.host.kind = "domain" /\ c.wild = "lead" THEN { [c EXCEPT !.host.len = 252, !.host.maxlabel = 63] } ELSE {})
          ELSE IF c.host.kind = "ipv4"
            THEN { [c EXCEPT !.host.defect = d] : d \in {"v4noncanon", "v4overflow", "v4extra"} } \cup { [c EXCEPT !.wild = "lead"] }
            ELSE { [c EXCEPT !.host.defect = d] : d \in {"v6noncanon", "v6zone", "v4mapped", "v6nobracket"} } \cup { [c EXCEPT !.wild = "lead"] })
  \cup { [c EXCEPT !.port = p] : p \in {Port("empty", 0, 0, FALSE), Port("num", 0, 1, FALSE), Port("num", 65536, 5, FALSE), Port("num", 123456, 6, FALSE),
                                        Port("num", 80, 3, TRUE), Port("neg", 1, 1, FALSE), Port("junk", 0, 0, FALSE), Port("starjunk", 0, 0, FALSE)} }
  \* over-range ports at the places where a narrower integer, a wrapped accumulator or a digit-count test would go wrong: just above
  \* 2^16, 2^16 + a valid port, the last / first value for which 10 * port + digit wraps past itself in 16 bits, the largest five-digit
  \* number, six and more digits, 2^17 + 80, 2^31 - 1; 2^32 + 80 and 2^64 + 80 (kinds of their own: TLC integers have 32 bits)
  \cup { [c EXCEPT !.port = Port("num", v[1], v[2], FALSE)] :
            v \in {<<65537, 5>>, <<65616, 5>>, <<70000, 5>>, <<72816, 5>>, <<72817, 5>>, <<99999, 5>>, <<100000, 6>>, <<131152, 6>>,
                   <<655360, 6>>, <<1000000, 7>>, <<2147483647, 10>>} }
  \cup { [c EXCEPT !.port = Port(k, 0, 0, FALSE)] : k \in {"wrap32", "wrap64"} }
  \cup (IF c.scheme.cls = "http" THEN { [c EXCEPT !.port = Port("num", 80, 2, FALSE)] } ELSE {})
  \cup (IF c.scheme.cls = "https" THEN { [c EXCEPT !.port = Port("num", 443, 3, FALSE)] } ELSE {})
  \cup { [c EXCEPT !.tail = x] : x \in {"userinfo", "slash", "path", "query", "fragment", "wsbefore", "wsafter"} }

VARIABLES phase, cand
vars == <<phase, cand>>
Init == phase = "start" /\ cand = CHOOSE c \in Good : TRUE
Next == /\ phase = "start"
        /\ \/ phase' = "valid" /\ \E c \in Good : cand' = c
           \/ phase' = "defect" /\ \E c \in Good : \E d \in Defects(c) : cand' = d
Spec == Init /\ [][Next]_vars

GoodIsValid == phase = "valid" => Valid(cand)
DefectIsInvalid == phase = "defect" => ~Valid(cand)
Dump == IF DumpCases /\ phase # "start"
          THEN CSVWrite("%1$s", <<ToJson([c |-> cand, valid |-> Valid(cand), judged |-> Judged(cand), self |-> MustSelfMatch(cand)])>>, IOEnv.OUT_FILE)
          ELSE TRUE
=============================================================================
