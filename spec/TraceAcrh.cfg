SPECIFICATION Spec
CONSTANTS
  MaxOWS = 1
  MaxEmpty = 16
  ABug = "none"
INVARIANT Final
CHECK_DEADLOCK FALSE
VIEW TraceView
