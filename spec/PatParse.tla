------------------------------ MODULE PatParse ------------------------------
(***************************************************************************)
(* Byte-level models of origin-PATTERN parsing (C13, C04):                 *)
(*   Accepts(b)   - implementation-shaped: ParsePattern / parseHostPattern *)
(*                  / peekKind / parsePortPattern of internal/origins/     *)
(*                  pattern.go on top of the scanners modelled in          *)
(*                  ReqParse.tla; IPv4 canonicity (netip.ParseAddr +       *)
(*                  String round trip) and the IDNA profile's label rules  *)
(*                  are modelled for ASCII letter-digit-hyphen input;      *)
(*   DocValid(b)  - declarative: the documented grammar as a decomposition *)
(*                  scheme "://" ["*."] host [":" port]                    *)
(* for byte strings WITHOUT brackets and non-ASCII bytes (IPv6 and         *)
(* Unicode are covered by the component model Pattern.tla).                *)
(***************************************************************************)
EXTENDS ReqParse

LOCAL STAR == 42
LOCAL HYPHEN == 45
LOCAL DOTC == 46
LOCAL COL == 58

Str(s) == s   \* byte sequences are written as tuples of codes

IsPrefix(p, s) == Len(p) <= Len(s) /\ SubSeq(s, 1, Len(p)) = p
HTTP == <<104, 116, 116, 112>>
HTTPS == <<104, 116, 116, 112, 115>>
FILE == <<102, 105, 108, 101>>

\* ------------------------------------------------------------------ labels / hosts
RECURSIVE SplitDots(_, _, _)
SplitDots(s, i, cur) == IF i > Len(s) THEN <<cur>>
                        ELSE IF s[i] = DOTC THEN <<cur>> \o SplitDots(s, i + 1, <<>>)
                        ELSE SplitDots(s, i + 1, Append(cur, s[i]))
Labels(h) == SplitDots(h, 1, <<>>)

LabelOK(lb) == /\ lb # <<>> /\ Len(lb) <= 63
               /\ \A i \in DOMAIN lb : IsLabelByte(lb[i]) /\ lb[i] # 95
               /\ lb[1] # HYPHEN /\ lb[Len(lb)] # HYPHEN
HyphenGrey(lb) == Len(lb) >= 4 /\ lb[3] = HYPHEN /\ lb[4] = HYPHEN          \* "--" in positions 3-4: undocumented grey zone
\* a domain: non-empty labels, optionally one trailing dot, at most 253 bytes not counting it
DomainLabels(h) == LET ls == Labels(h) IN IF Len(ls) >= 2 /\ ls[Len(ls)] = <<>> THEN SubSeq(ls, 1, Len(ls) - 1) ELSE ls
DomainOK(h) == /\ h # <<>>
               /\ \A i \in DOMAIN DomainLabels(h) : LabelOK(DomainLabels(h)[i])
               /\ Len(h) - (IF h[Len(h)] = DOTC THEN 1 ELSE 0) <= 253
LastLabelStartsWithDigit(h) == LET ls == DomainLabels(h) IN ls # <<>> /\ ls[Len(ls)] # <<>> /\ IsDigitB(ls[Len(ls)][1])

\* canonical dotted quad: exactly four decimal fields 0..255 without leading zeros, no trailing dot
DecVal3(f) == IF Len(f) = 1 THEN f[1] - 48 ELSE IF Len(f) = 2 THEN 10 * (f[1] - 48) + (f[2] - 48)
              ELSE 100 * (f[1] - 48) + 10 * (f[2] - 48) + (f[3] - 48)
FieldOK(f) == /\ f # <<>> /\ Len(f) <= 3 /\ \A i \in DOMAIN f : IsDigitB(f[i])
              /\ (Len(f) > 1 => f[1] # 48)
              /\ DecVal3(f) <= 255
IPv4OK(h) == LET fs == Labels(h) IN Len(fs) = 4 /\ \A i \in 1..4 : FieldOK(fs[i])

\* ------------------------------------------------------------------ implementation-shaped
\* ParsePattern on `b`; result [ok, ip]
Accepts(b) ==
  IF b = <<STAR>> \/ b = <<110, 117, 108, 108>> THEN FALSE
  ELSE LET sc == ParseScheme(b) IN
  IF ~sc.ok THEN FALSE
  ELSE LET scheme == Sub(b, 1, sc.n)  r1 == Sub(b, sc.n + 1, Len(b)) IN
  IF scheme = FILE THEN FALSE
  ELSE IF Len(r1) < 3 \/ r1[1] # COL \/ r1[2] # 47 \/ r1[3] # 47 THEN FALSE
  ELSE LET r2   == Sub(r1, 4, Len(r1))
           sub  == IsPrefix(<<STAR, DOTC>>, r2)                               \* peekKind
           ho   == IF sub THEN Sub(r2, 3, Len(r2)) ELSE r2
           h    == FastParseHost(ho)
       IN IF ~h.ok THEN FALSE
          ELSE IF sub /\ (Len(h.host) > 251 \/ h.ip) THEN FALSE
          ELSE IF h.ip /\ ~IPv4OK(h.host) THEN FALSE                          \* netip.ParseAddr + canonical form
          ELSE IF ~h.ip /\ ~(DomainOK(h.host) /\ \A i \in DOMAIN DomainLabels(h.host) : ~HyphenGrey(DomainLabels(h.host)[i])) THEN FALSE   \* profile.ToASCII
          ELSE IF h.ip /\ scheme = HTTPS THEN FALSE
          ELSE LET r3 == Sub(ho, h.n + 1, Len(ho)) IN
               IF r3 = <<>> THEN TRUE
               ELSE IF r3[1] # COL THEN FALSE
               ELSE LET pr == Tail(r3) IN
                    IF pr # <<>> /\ pr[1] = STAR THEN (Len(pr) = 1 \/ PBug = "starPortJunk")                  \* parsePortPattern: "*" then nothing
                    ELSE LET p == ParsePort(pr) IN
                         /\ p.ok /\ p.n = Len(pr)
                         /\ (PBug = "noDefaultPort" \/ ~((p.port = 80 /\ scheme = HTTP) \/ (p.port = 443 /\ scheme = HTTPS)))

RECURSIVE DecVal(_, _, _)
DecVal(s, i, acc) == IF i > Len(s) THEN acc ELSE DecVal(s, i + 1, acc * 10 + (s[i] - 48))

\* ------------------------------------------------------------------ declarative: the documented form
SchemeDocOK(s) == /\ s # <<>> /\ Len(s) <= 64 /\ IsLowerAlpha(s[1]) /\ s # FILE
                  /\ \A i \in DOMAIN s : IsLowerAlpha(s[i]) \/ IsDigitB(s[i]) \/ s[i] \in {43, 45, 46}
PortDocOK(scheme, p) ==
  \/ p = <<>>
  \/ p = <<COL, STAR>>
  \/ /\ Len(p) \in 2..6 /\ p[1] = COL
     /\ LET d == Tail(p) IN /\ \A i \in DOMAIN d : IsDigitB(d[i])
                            /\ d[1] # 48
                            /\ LET v == DecVal(d, 1, 0) IN v \in 1..65535 /\ ~((v = 80 /\ scheme = HTTP) \/ (v = 443 /\ scheme = HTTPS))
HostDocOK(wild, h) ==
  IF LastLabelStartsWithDigit(h) THEN ~wild /\ IPv4OK(h)                         \* an IPv4 literal: dotted quad, no wildcard
  ELSE DomainOK(h) /\ (wild => Len(h) - (IF h[Len(h)] = DOTC THEN 1 ELSE 0) <= 251)
\* b = scheme "://" ["*."] host [":" port] for SOME decomposition
DocValid(b) ==
  \E i \in 1..(Len(b) - 3) :
    /\ b[i] = COL /\ b[i + 1] = 47 /\ b[i + 2] = 47 /\ \A j \in 1..(i - 1) : b[j] # COL
    /\ LET scheme == Sub(b, 1, i - 1)  rest == Sub(b, i + 3, Len(b))
           wild == IsPrefix(<<STAR, DOTC>>, rest)
           hp == IF wild THEN Sub(rest, 3, Len(rest)) ELSE rest
       IN /\ SchemeDocOK(scheme)
          /\ \E k \in 0..Len(hp) :                                              \* host = hp[1..k], port part = the rest
               LET h == Sub(hp, 1, k)  p == Sub(hp, k + 1, Len(hp)) IN
               h # <<>> /\ (\A x \in DOMAIN h : h[x] # COL) /\ HostDocOK(wild, h) /\ PortDocOK(scheme, p)
\* grey zones (not judged): https + IP literal; hyphens in label positions 3-4; `_`
Grey(b) ==
  \/ \E i \in 1..(Len(b) - 1) : b[i] = 95
  \/ \E i \in 1..(Len(b) - 3) : b[i] = COL /\ b[i + 1] = 47 /\ b[i + 2] = 47 /\ \A j \in 1..(i - 1) : b[j] # COL
       /\ LET rest == Sub(b, i + 3, Len(b))
              k == IF \E x \in DOMAIN rest : rest[x] = COL THEN (CHOOSE x \in DOMAIN rest : rest[x] = COL /\ \A y \in 1..(x - 1) : rest[y] # COL) - 1 ELSE Len(rest)
              h0 == Sub(rest, 1, k)
              h == IF IsPrefix(<<STAR, DOTC>>, h0) THEN Sub(h0, 3, Len(h0)) ELSE h0
          IN \/ (Sub(b, 1, i - 1) = HTTPS /\ h # <<>> /\ LastLabelStartsWithDigit(h))
             \/ \E q \in DOMAIN Labels(h) : HyphenGrey(Labels(h)[q])
=============================================================================
