---------------------------- MODULE TraceConform ----------------------------
(***************************************************************************)
(* Full conformance of the request-handling MODEL (Cors!Respond) with the  *)
(* real middleware: every Serve event of a trace (any request whatsoever,  *)
(* both debug modes) is abstracted into the model's request - the first    *)
(* Origin value through the byte-level scanner model ReqParse!Parse and    *)
(* the tree-membership relation, the ACRH field lines through the byte-    *)
(* level Acrh!Approved - and the model's response is compared with the     *)
(* recorded one: handled / status / every CORS header and Vary.            *)
(*                                                                         *)
(* This is what ties Cors.tla (on which the bounded model checks of C02,   *)
(* C03, C09, C10, C11, C16 are run) to the code.  By the verdict rule a    *)
(* disagreement here is MODEL-DRIFT (reported in the evidence), not a      *)
(* violation: properties are only ever judged by their own predicates.     *)
(***************************************************************************)
EXTENDS Cors, Json, IOUtils

Trace == ndJsonDeserialize(IOEnv.TRACE_FILE)

O  == INSTANCE Origins
RP == INSTANCE ReqParse WITH PBug <- "none"
A  == INSTANCE Acrh WITH MaxOWS <- 1, MaxEmpty <- 16, ABug <- "none"

Range(f) == {f[x] : x \in DOMAIN f}
\* all request-header names of the trace's configurations, sorted by the driver (first event)
TraceNameOrder == Trace[1].names
\* byte-level approval and reflection for the conformance run
AcrhOKBytes(s, r) == A!Approved(Range(r.acrh.names), r.acrh.bytes)
AcrhEchoTokens(r) == r.acrh.lines

VARIABLES l, sem, pats, namesb, drift, stats
vars == <<l, sem, pats, namesb, drift, stats>>
\* The monitor is a deterministic chain, one state per consumed event: fingerprinting the position alone (cfg: VIEW TraceView)
\* keeps validation linear however large `bad`, the references or the block grow.
TraceView == l

Ev(e) == l <= Len(Trace) /\ Trace[l].ev = e /\ l' = l + 1

SemOf(j) == [pass |-> j.pass, any |-> j.any, cred |-> j.cred, mAny |-> j.mAny, meths |-> Range(j.meths),
             hStar |-> j.hStar, hAuth |-> j.hAuth, hNames |-> Range(j.hNames), maxAge |-> j.maxAge,
             expose |-> j.expose, status |-> j.status, pna |-> j.pna]
PatsOf(j) == { [scheme |-> p.scheme, wild |-> p.wild, host |-> p.host, port |-> p.port] : p \in Range(j.patsb) }

ValueOf(h) == IF h # <<>> /\ h[1] = 91 THEN SubSeq(h, 2, Len(h) - 1) ELSE h
Member(pr) == \E p \in pats :
  /\ p.scheme = pr.scheme
  /\ IF p.wild THEN Len(pr.host) > Len(p.host) + 1 /\ O!IsSuffixOf(<<46>> \o p.host, pr.host)
               ELSE pr.host = ValueOf(p.host)
  /\ (p.port = O!AnyPort \/ p.port = pr.port)

AbsReq(e) ==
  LET pr == IF e.no > 0 THEN RP!Parse(e.o1b) ELSE [ok |-> FALSE] IN
  [method |-> e.m,
   origin |-> [i \in 1..Len(e.origin) |->
                 [txt |-> e.origin[i], wf |-> TRUE,
                  parse |-> IF i = 1 THEN pr.ok ELSE FALSE,
                  member |-> IF i = 1 THEN pr.ok /\ Member(pr) ELSE FALSE]],
   acrm |-> e.acrm, acrpn |-> e.acrpn,
   acrh |-> [present |-> Len(e.acrh) > 0, lines |-> e.acrht, bytes |-> e.acrhb, names |-> namesb]]

\* compare the model's response with the recorded one
TokenSetOf(lines) == UNION { Range(t) : t \in Range(lines) }
SameHeader(k, m, r, e) ==
  IF k = "ACEH" THEN (k \in DOMAIN m) = (k \in DOMAIN r) /\ (k \in DOMAIN r => TokenSetOf(r[k]) = Range(sem.exposeSet) /\ Len(r[k]) = 1)
  ELSE IF k = "ACAM" /\ e.acrm # <<>> /\ Get(m, k) = << <<e.acrm[1]>> >>
    THEN Get(r, k) = << e.acrmt[1] >>   \* the first ACRM value reflected: the driver tokenises it (commas, empty tokens) like the request's
  ELSE IF k \in {"ACAM", "ACAH"}       \* the driver's tokeniser drops empty tokens
    THEN [i \in DOMAIN Get(m, k) |-> SelectSeq(Get(m, k)[i], LAMBDA t : t # "")] = Get(r, k)
  ELSE Get(m, k) = Get(r, k)
\* Headers that were already in the writer's map when the middleware ran (set earlier in the chain, by an outer middleware of this
\* library, by a layer in front): Respond takes them as its last argument - the middleware appends to Vary and sets / replaces the
\* others - and the result is compared with what the middleware handed on (the map at handler entry, or the final one when it
\* answered itself). A header the model leaves as it found it must be found as it was.
PreOf(e) == IF "preabs" \in DOMAIN e THEN e.preabs ELSE NoHdrs
OutOf(e) == IF "mwout" \in DOMAIN e THEN e.mwout ELSE e.resp
Conforms(e) ==
  LET pre0  == PreOf(e)
      \* (the model writes Expose-Headers as one string, the driver projects it to token lists: a pre-set one is kept out of the
      \* model's sight and compared separately)
      pre   == [k \in DOMAIN pre0 \ {"ACEH"} |-> pre0[k]]
      model == Respond(sem, e.dbg, AbsReq(e), pre)
      real  == OutOf(e)
  IN /\ model.handled = (e.invoked = 0)
     /\ (model.handled => model.status = real.status)
     /\ \A k \in DOMAIN model.hdrs \cup DOMAIN real.hdrs \cup DOMAIN pre0 :
           IF k = "ACEH" /\ k \notin DOMAIN model.hdrs THEN Get(real.hdrs, k) = Get(pre0, k)
           ELSE IF k \in DOMAIN pre /\ Get(model.hdrs, k) = pre[k] THEN Get(real.hdrs, k) = pre[k]
           ELSE SameHeader(k, model.hdrs, real.hdrs, e)

Names == Ev("Names") /\ UNCHANGED <<sem, pats, namesb, drift, stats>>
Config == /\ Ev("Config")
          /\ sem' = [SemOf(Trace[l].sem) EXCEPT !.expose = Trace[l].sem.expose] @@ [exposeSet |-> Trace[l].sem.exposeSet]
          /\ pats' = PatsOf(Trace[l].sem)
          /\ namesb' = Trace[l].sem.hNamesb
          /\ UNCHANGED <<drift, stats>>
Skip == /\ l <= Len(Trace) /\ Trace[l].ev \in {"Rejected", "Panic", "Hang", "LateChange", "Block", "EndBlock"} /\ l' = l + 1
        /\ UNCHANGED <<sem, pats, namesb, drift, stats>>
Plain(e) == TRUE      \* (formerly: only responses with nothing set earlier in the chain were compared)
Serve == /\ Ev("Serve")
         /\ LET e == Trace[l] IN
            /\ drift' = IF Plain(e) /\ ~Conforms(e) THEN drift \cup {l} ELSE drift
            /\ stats' = [stats EXCEPT !.compared = @ + (IF Plain(e) THEN 1 ELSE 0),
                                      !.handled = @ + (IF e.invoked = 0 THEN 1 ELSE 0)]
         /\ UNCHANGED <<sem, pats, namesb>>

Init == l = 1 /\ sem = [pass |-> TRUE] /\ pats = {} /\ namesb = <<>> /\ drift = {} /\ stats = [compared |-> 0, handled |-> 0]
Next == Names \/ Config \/ Skip \/ Serve
Spec == Init /\ [][Next]_vars
Final == (l = Len(Trace) + 1) =>
           JsonSerialize(IOEnv.RESULT_FILE, [bad |-> drift, consumed |-> l - 1, total |-> Len(Trace), stats |-> stats])
=============================================================================
