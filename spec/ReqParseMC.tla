----------------------------- MODULE ReqParseMC -----------------------------
(***************************************************************************)
(* Bounded configuration of ReqParse.tla and generator for binding G of    *)
(* C03 (and C17): every byte string of length <= MaxTail over the alphabet *)
(* {a, 1, 0, ., :, /, [, ], A} appended to the fixed prefix "h://".        *)
(* For each string TLC computes                                            *)
(*   lenient  = the modelled scanner accepts it,                           *)
(*   member   = the modelled tree, filled with the patterns below, then    *)
(*              contains the parsed origin (the request is treated as      *)
(*              coming from an allowed origin),                            *)
(*   strictOK = OriginSyntax!SerializedOrigin accepts it AND               *)
(*              Origins!Allowed admits it - the MEANING C03 refers to.     *)
(* LenientSound: member => strictOK, except for the shape of known finding *)
(* F4 (a bracketed host that is not an IPv6 literal).  The generator       *)
(* replays every string through the real middleware.                       *)
(***************************************************************************)
EXTENDS ReqParse, Origins, OriginSyntax, Json, CSV, IOUtils

CONSTANTS MaxTail, DumpCases

Prefix == <<104, 58, 47, 47>>                    \* "h://"
Alphabet == {97, 49, 48, 46, 58, 47, 91, 93, 65}

\* patterns of the configuration (serialized hosts); the tree is searched with host VALUES (IPv6 without brackets)
P(h, port, wild) == [scheme |-> <<104>>, wild |-> wild, host |-> h, port |-> port]
Pats == { P(<<97>>, NoPort, FALSE),                          \* h://a
          P(<<97, 46, 97>>, 1, FALSE),                       \* h://a.a:1
          P(<<97>>, AnyPort, TRUE),                          \* h://*.a:*
          P(<<91, 58, 58, 49, 93>>, 10, FALSE),              \* h://[::1]:10
          P(<<49, 46, 49, 46, 49, 46, 49>>, NoPort, FALSE) } \* h://1.1.1.1
ValueOf(h) == IF h # <<>> /\ h[1] = 91 THEN SubSeq(h, 2, Len(h) - 1) ELSE h

\* what Tree.Contains decides for a parsed origin: host VALUE comparison (the radix tree refines this, RadixMC)
Member(pr) == \E p \in Pats :
  /\ p.scheme = pr.scheme
  /\ IF p.wild THEN Len(pr.host) > Len(p.host) + 1 /\ IsSuffixOf(<<46>> \o p.host, pr.host)
               ELSE pr.host = ValueOf(p.host)
  /\ (p.port = AnyPort \/ p.port = pr.port)

VARIABLE tail
Init == tail = <<>>
Next == Len(tail) < MaxTail /\ \E c \in Alphabet : tail' = Append(tail, c)
Spec == Init /\ [][Next]_tail

Bytes == Prefix \o tail
Lenient == Parse(Bytes)
IsMember == Lenient.ok /\ Member(Lenient)
Strict == SerializedOrigin(Bytes)
StrictOK == Strict.ok /\ Allowed(Pats, [scheme |-> Strict.scheme, host |-> Strict.host, port |-> Strict.port])
\* shape of known finding F4: the host is in brackets (and its content is found in the tree although the bytes are
\* not the serialization of an allowed origin)
F4Shape == Len(tail) >= 1 /\ tail[1] = 91

ParseInBounds == Lenient.inb
LenientSound == IsMember => (StrictOK \/ F4Shape)
\* and the lenient scanner loses nothing: every allowed serialized origin is found
\* (for hosts without empty labels; the strict recogniser is deliberately permissive about those)
CleanHost(h) == h # <<>> /\ h[1] # 46 /\ \A i \in 1..(Len(h) - 1) : ~(h[i] = 46 /\ h[i + 1] = 46)
LenientComplete == (StrictOK /\ CleanHost(Strict.host)) => IsMember

Dump == IF DumpCases THEN CSVWrite("%1$s", <<ToJson([b |-> Bytes, lenient |-> Lenient.ok, member |-> IsMember, strict |-> StrictOK, f4 |-> F4Shape])>>, IOEnv.OUT_FILE) ELSE TRUE
=============================================================================
