------------------------------ MODULE Origins ------------------------------
(***************************************************************************)
(* What origin patterns and (tuple) Web origins ARE, and what it means for *)
(* a pattern to denote an origin.  This module is the meaning oracle for   *)
(* C01 (and, through Allowed, for C03/C06/C13); nothing in it mirrors the  *)
(* implementation.  Hosts are sequences of byte codes in *serialized* form *)
(* (an IPv6 literal keeps its brackets); schemes are TLA+ strings because  *)
(* only their equality matters.                                            *)
(***************************************************************************)
EXTENDS Naturals, Sequences, FiniteSets

DOT     == 46
NoPort  == 0          \* absence of an explicit port
AnyPort == 65536      \* the `:*` port pattern (same numeral as the code's sentinel)

\* Pattern == [scheme : STRING, wild : BOOLEAN, host : Seq(Nat), port : Nat]
\*   wild = TRUE stands for a leading "*." ; host is then the base domain.
\* Origin  == [scheme : STRING, host : Seq(Nat), port : Nat]   (port = NoPort when absent)

IsSuffixOf(s, t) ==
  /\ Len(s) <= Len(t)
  /\ SubSeq(t, Len(t) - Len(s) + 1, Len(t)) = s

(***************************************************************************)
(* The C01 sentence, literally: same scheme; host byte-equal to the        *)
(* pattern's host or, for a `*.` pattern, ending in "."+base with at least *)
(* one more (non-empty) label in front; port equal (absent matches only    *)
(* absent) or arbitrary for a `:*` pattern.                                *)
(***************************************************************************)
Denotes(p, o) ==
  /\ p.scheme = o.scheme
  /\ IF p.wild
       THEN /\ Len(o.host) > Len(p.host) + 1
            /\ IsSuffixOf(<<DOT>> \o p.host, o.host)
       ELSE o.host = p.host
  /\ (p.port = AnyPort \/ p.port = o.port)

Allowed(pats, o) == \E p \in pats : Denotes(p, o)

\* A pattern q is subsumed by p when everything q denotes, p denotes.
\* (Used by the round-trip lemma and by the model of Elems; stated semantically
\* over a finite probe set by the bounded configurations.)
SameMeaning(P, Q, Probes) == \A o \in Probes : Allowed(P, o) = Allowed(Q, o)
=============================================================================
