-------------------------------- MODULE Acrh --------------------------------
(***************************************************************************)
(* Approval of Access-Control-Request-Headers field lines (C14).           *)
(*                                                                         *)
(*   Approved(set, lines)  - the MEANING, literally the C14 sentence: read *)
(*     in order as comma-separated lists, every element carries at most    *)
(*     MaxOWS bytes of optional whitespace per side, at most MaxEmpty      *)
(*     elements are empty, and the non-empty elements are members of `set` *)
(*     in strictly increasing lexicographic order.                         *)
(*   Scan(set, lines)      - an implementation-shaped model of             *)
(*     headers.Check / cutAtComma / TrimOWS / SortedSet.IndexAfter with    *)
(*     the code's variables (posOfLastNameSeen, emptyElements, the window  *)
(*     maxLen = MaxOWS + longest name + MaxOWS + 1) and an InBounds flag   *)
(*     at every slice expression.                                          *)
(* Names, elements and lines are sequences of byte codes.                  *)
(* Reading fixed here (DESIGN.md): an element consisting only of           *)
(* whitespace is "empty" and may be up to 2*MaxOWS bytes long (MaxOWS on   *)
(* each side of nothing).                                                  *)
(* ABug selects negative twins.                                            *)
(***************************************************************************)
EXTENDS Integers, Sequences, FiniteSets, TLC

CONSTANTS MaxOWS, MaxEmpty, ABug

COMMA == 44
SP    == 32
TAB   == 9
IsOWS(c) == c = SP \/ c = TAB
Range(f) == {f[x] : x \in DOMAIN f}

(***************************************************************************)
(* Byte-wise lexicographic order.                                          *)
(***************************************************************************)
RECURSIVE LessFrom(_, _, _)
LessFrom(a, b, i) ==
  IF i > Len(a) THEN i <= Len(b)              \* a is a proper prefix of b (or equal: then FALSE)
  ELSE IF i > Len(b) THEN FALSE
  ELSE IF a[i] < b[i] THEN TRUE
  ELSE IF a[i] > b[i] THEN FALSE
  ELSE LessFrom(a, b, i + 1)
Less(a, b) == LessFrom(a, b, 1)

(***************************************************************************)
(* Declarative meaning.                                                    *)
(***************************************************************************)
RECURSIVE SplitFrom(_, _, _)
SplitFrom(s, i, cur) ==                       \* split at commas; always yields at least one element
  IF i > Len(s) THEN <<cur>>
  ELSE IF s[i] = COMMA THEN <<cur>> \o SplitFrom(s, i + 1, <<>>)
  ELSE SplitFrom(s, i + 1, Append(cur, s[i]))
Split(s) == SplitFrom(s, 1, <<>>)

RECURSIVE ConcatAll(_, _)
ConcatAll(ss, i) == IF i > Len(ss) THEN <<>> ELSE ss[i] \o ConcatAll(ss, i + 1)
Elements(lines) == ConcatAll([i \in DOMAIN lines |-> Split(lines[i])], 1)

RECURSIVE LeadOWS(_, _)
LeadOWS(e, i) == IF i <= Len(e) /\ IsOWS(e[i]) THEN 1 + LeadOWS(e, i + 1) ELSE 0
RECURSIVE TrailOWS(_, _)
TrailOWS(e, i) == IF i >= 1 /\ IsOWS(e[i]) THEN 1 + TrailOWS(e, i - 1) ELSE 0
AllOWS(e) == \A i \in DOMAIN e : IsOWS(e[i])
Core(e) == IF AllOWS(e) THEN <<>> ELSE SubSeq(e, LeadOWS(e, 1) + 1, Len(e) - TrailOWS(e, Len(e)))
WellPadded(e, mo) == IF AllOWS(e) THEN Len(e) <= 2 * mo
                     ELSE LeadOWS(e, 1) <= mo /\ TrailOWS(e, Len(e)) <= mo

ApprovedWith(set, lines, mo, me) ==
  LET es       == Elements(lines)
      cores    == [i \in DOMAIN es |-> Core(es[i])]
      nonEmpty == SelectSeq(cores, LAMBDA c : c # <<>>)
  IN /\ \A i \in DOMAIN es : WellPadded(es[i], mo)
     /\ Cardinality({i \in DOMAIN cores : cores[i] = <<>>}) <= me
     /\ \A i \in DOMAIN nonEmpty : nonEmpty[i] \in set
     /\ \A i \in 1..(Len(nonEmpty) - 1) : Less(nonEmpty[i], nonEmpty[i + 1])
Approved(set, lines) == ApprovedWith(set, lines, MaxOWS, MaxEmpty)

(***************************************************************************)
(* Implementation-shaped scanner.                                          *)
(***************************************************************************)
RECURSIVE SortSet(_)
SortSet(S) == IF S = {} THEN <<>>
              ELSE LET m == CHOOSE x \in S : \A y \in S : x = y \/ Less(x, y) IN <<m>> \o SortSet(S \ {m})
MaxLenOf(S) == IF S = {} THEN 0 ELSE CHOOSE n \in {Len(x) : x \in S} : \A x \in S : Len(x) <= n

\* cutAtComma(str, n): the first comma among (up to) the first n bytes
CutAtComma(str, n) ==
  LET end == IF Len(str) < n THEN Len(str) ELSE n
      idx == { i \in 1..end : str[i] = COMMA }
  IN IF idx # {}
       THEN LET i == CHOOSE i \in idx : \A j \in idx : i <= j
            IN [before |-> SubSeq(str, 1, i - 1), after |-> SubSeq(str, i + 1, Len(str)), found |-> TRUE]
       ELSE [before |-> str, after |-> <<>>, found |-> FALSE]

\* trimRightOWS / trimLeftOWS: the loop tests `i > n` BEFORE looking at the byte
RECURSIVE TrimRight(_, _, _)
TrimRight(s, i, n) ==
  IF Len(s) = 0 THEN [s |-> s, ok |-> TRUE]
  ELSE IF i > (IF ABug = "trimTolerant" THEN n + 1 ELSE n) THEN [s |-> s, ok |-> FALSE]
  ELSE IF ~IsOWS(s[Len(s)]) THEN [s |-> s, ok |-> TRUE]
  ELSE TrimRight(SubSeq(s, 1, Len(s) - 1), i + 1, n)
RECURSIVE TrimLeft(_, _, _)
TrimLeft(s, i, n) ==
  IF Len(s) = 0 THEN [s |-> s, ok |-> TRUE]
  ELSE IF i > n THEN [s |-> s, ok |-> FALSE]
  ELSE IF ~IsOWS(s[1]) THEN [s |-> s, ok |-> TRUE]
  ELSE TrimLeft(Tail(s), i + 1, n)
TrimOWS(s, n) ==
  IF s = <<>> THEN [s |-> s, ok |-> TRUE]
  ELSE LET r == TrimRight(s, 0, n) IN
       IF ~r.ok THEN [s |-> s, ok |-> FALSE]
       ELSE LET q == TrimLeft(r.s, 0, n) IN IF ~q.ok THEN [s |-> s, ok |-> FALSE] ELSE q

\* SortedSet.IndexAfter(n, e) with 0-based n (-1 = nothing seen yet); result -1 = not found.
\* Precondition of the Go code: n < Size (the slice elems[n+1:] must be in bounds).
IndexAfter(sorted, maxLen, n, e) ==
  IF maxLen < Len(e) THEN [i |-> -1, inb |-> TRUE]
  ELSE LET start == n + 1
           hits  == { k \in (start + 1)..Len(sorted) : sorted[k] = e }      \* TLA+ sequences are 1-based
       IN [i |-> IF hits = {} THEN -1 ELSE (CHOOSE k \in hits : TRUE) - 1, inb |-> start <= Len(sorted)]

\* the inner `for { ... }` over one field line; st = [pos, empties, ok, inb]
RECURSIVE ScanLine(_, _, _, _, _)
ScanLine(sorted, maxLen, win, rest, st) ==
  LET c  == CutAtComma(rest, win)
      tr == TrimOWS(c.before, MaxOWS)
  IN IF ~tr.ok THEN [st EXCEPT !.ok = FALSE]
     ELSE IF tr.s = <<>>
       THEN LET em == st.empties + 1 IN
            IF em > MaxEmpty THEN [st EXCEPT !.ok = FALSE, !.empties = em]
            ELSE IF ~c.found THEN [st EXCEPT !.empties = em]
            ELSE ScanLine(sorted, maxLen, win, c.after, [st EXCEPT !.empties = em])
     ELSE LET ia == IndexAfter(sorted, maxLen, st.pos, tr.s) IN
          IF ia.i < 0 THEN [st EXCEPT !.ok = FALSE, !.inb = st.inb /\ ia.inb]
          ELSE LET st2 == [st EXCEPT !.pos = ia.i, !.inb = st.inb /\ ia.inb] IN
               IF ~c.found THEN st2 ELSE ScanLine(sorted, maxLen, win, c.after, st2)

RECURSIVE ScanLines(_, _, _, _, _, _)
ScanLines(sorted, maxLen, win, lines, k, st) ==
  IF k > Len(lines) \/ ~st.ok THEN st
  ELSE ScanLines(sorted, maxLen, win, lines, k + 1,
                 ScanLine(sorted, maxLen, win, lines[k],
                          IF ABug = "resetPerLine" THEN [st EXCEPT !.empties = 0] ELSE st))

ScanState(set, lines) ==
  LET sorted == SortSet(set)
      maxLen == MaxLenOf(set)
      win    == MaxOWS + maxLen + MaxOWS + (IF ABug = "shortWindow" THEN 0 ELSE 1)     \* +1 for the comma
  IN ScanLines(sorted, maxLen, win, lines, 1, [pos |-> -1, empties |-> 0, ok |-> TRUE, inb |-> TRUE])
Scan(set, lines) == ScanState(set, lines).ok
InBounds(set, lines) == ScanState(set, lines).inb
=============================================================================
