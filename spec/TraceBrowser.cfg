SPECIFICATION Spec
CONSTANTS
  CBug = "none"
  NameOrder <- NameOrderDef
INVARIANT Final
CHECK_DEADLOCK FALSE
