SPECIFICATION Spec
CONSTANTS
  CBug = "none"
  NameOrder <- NameOrderDef
  AcrhOK <- AcrhOKUnused
  AcrhEcho <- AcrhEchoUnused
INVARIANT Final
CHECK_DEADLOCK FALSE
VIEW TraceView
