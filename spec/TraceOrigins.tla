---------------------------- MODULE TraceOrigins ----------------------------
(***************************************************************************)
(* Trace specification for C01 (binding T).  The driver builds realistic   *)
(* pattern lists FROM COMPONENTS, serialises them, configures the real     *)
(* middleware, probes it with near-miss origins (also built from           *)
(* components) and logs, per probe, whether the real response carried      *)
(* Access-Control-Allow-Origin (actual request and preflight).  TLC        *)
(* evaluates Origins!Allowed on the logged components and records every    *)
(* probe whose real verdict differs.  The monitor is total: it never       *)
(* blocks, offending event indices are collected in `bad`.                 *)
(***************************************************************************)
EXTENDS Origins, TLC, Json, IOUtils

Trace == ndJsonDeserialize(IOEnv.TRACE_FILE)

VARIABLES l, pats, bad
vars == <<l, pats, bad>>
\* The monitor is a deterministic chain, one state per consumed event: fingerprinting the position alone (cfg: VIEW TraceView)
\* keeps validation linear however large `bad`, the references or the block grow.
TraceView == l

Ev(e) == l <= Len(Trace) /\ Trace[l].ev = e /\ l' = l + 1

Reset == Ev("Reset") /\ pats' = {} /\ UNCHANGED bad
Rejected == Ev("Rejected") /\ UNCHANGED <<pats, bad>>
Insert == /\ Ev("Insert")
          /\ pats' = pats \cup {[scheme |-> Trace[l].scheme, wild |-> Trace[l].wild,
                                 host |-> Trace[l].host, port |-> Trace[l].port]}
          /\ UNCHANGED bad
Probe == /\ Ev("Probe")
         /\ LET o    == [scheme |-> Trace[l].scheme, host |-> Trace[l].host, port |-> Trace[l].port]
                want == Allowed(pats, o)
            IN bad' = IF Trace[l].acao = want /\ Trace[l].pf = want THEN bad ELSE bad \cup {l}
         /\ UNCHANGED pats

Init == l = 1 /\ pats = {} /\ bad = {}
Next == Reset \/ Rejected \/ Insert \/ Probe
Spec == Init /\ [][Next]_vars

\* Reached only when every event has been consumed: the verdict file is written exactly then.
Final == (l = Len(Trace) + 1) =>
           JsonSerialize(IOEnv.RESULT_FILE, [bad |-> bad, consumed |-> l - 1, total |-> Len(Trace)])
=============================================================================
