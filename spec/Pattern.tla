------------------------------ MODULE Pattern ------------------------------
(***************************************************************************)
(* The origin-pattern grammar of the Config documentation as a COMPONENT   *)
(* model (C13).  A candidate pattern is a record of components with the    *)
(* numeric attributes the documented rules talk about; the Go concretiser  *)
(* builds the exact string from the same record (it never parses).         *)
(*                                                                         *)
(*  scheme : [cls : http | https | custom | file | upper | empty |         *)
(*                  badfirst | badlater,  len : Nat]                       *)
(*  sep    : ok | colon (":" only) | single (":/") | none                  *)
(*  wild   : none | lead ("*." as whole leading label) | inner | partial | *)
(*           bare ("*" as the whole host) | double ("**.")                 *)
(*  host   : [kind : domain | puny | localhost | ipv4 | ipv6,              *)
(*            defect : none | unicode | upper | space | emptylabel |       *)
(*                     leaddot | v4noncanon | v4overflow | v4extra |       *)
(*                     v6noncanon | v6zone | v4mapped | v6nobracket |      *)
(*                     badpuny,                                            *)
(*            len : bytes not counting a trailing dot, maxlabel : Nat,     *)
(*            tdot : BOOLEAN]                                              *)
(*  port   : [kind : none | num | star | empty | junk | neg | starjunk,    *)
(*            val : Nat, digits : Nat, leadzero : BOOLEAN]                 *)
(*  tail   : none | userinfo | slash | path | query | fragment |           *)
(*           wsbefore | wsafter | wsinside                                 *)
(***************************************************************************)
EXTENDS Naturals, Sequences, FiniteSets, TLC

DomainKinds == {"domain", "puny", "localhost"}
IPKinds == {"ipv4", "ipv6"}

DefaultPort(cls, v) == (cls = "http" /\ v = 80) \/ (cls = "https" /\ v = 443)

PortOK(c) ==
  \/ c.port.kind \in {"none", "star"}
  \/ /\ c.port.kind = "num"
     /\ c.port.val \in 1..65535 /\ ~c.port.leadzero /\ c.port.digits <= 5
     /\ ~DefaultPort(c.scheme.cls, c.port.val)

\* the documented form
Valid(c) ==
  /\ c.scheme.cls \in {"http", "https", "custom"} /\ c.scheme.len \in 1..64
  /\ c.sep = "ok"
  /\ c.wild \in {"none", "lead"}
  /\ c.host.defect = "none"
  /\ (c.host.kind \in DomainKinds => c.host.len \in 1..253 /\ c.host.maxlabel <= 63)
  /\ (c.host.tdot => c.host.kind \in DomainKinds)
  /\ (c.wild = "lead" => c.host.kind \in DomainKinds /\ c.host.len <= 251)
  /\ PortOK(c)
  /\ c.tail = "none"

\* undocumented grey zones are not judged (the generator also never produces `_` or hyphens in
\* label positions 3-4)
Judged(c) ==
  /\ ~(c.scheme.cls = "https" /\ c.host.kind \in IPKinds)            \* https with an IP host
  /\ ~(c.wild = "lead" /\ c.host.tdot /\ c.host.len = 251)            \* does "251 bytes" count the trailing dot?
  /\ ~(c.host.kind \in IPKinds /\ c.host.tdot)                        \* IP literal with a trailing dot

\* an accepted wildcard-free pattern, presented verbatim as an Origin, must be allowed
MustSelfMatch(c) == Valid(c) /\ Judged(c) /\ c.wild = "none" /\ c.port.kind # "star"
=============================================================================
