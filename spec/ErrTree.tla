------------------------------- MODULE ErrTree -------------------------------
(***************************************************************************)
(* cfgerrors.All: a recursive push iterator over errors.Join trees (C19).  *)
(* A tree is a leaf [k |-> "L", id |-> n] or a join [k |-> "J", c |->      *)
(* <<subtrees>>] with at least one subtree (errors.Join drops nils and     *)
(* returns nil for no error).  The iterator is modelled with an explicit   *)
(* consumer that breaks after k items; yielding after the consumer said    *)
(* "stop" is counted in `late` (in Go the runtime would panic).            *)
(* EBug = "innerOnly": the early exit leaves only the inner loop (twin).   *)
(***************************************************************************)
EXTENDS Naturals, Sequences, FiniteSets, TLC

CONSTANT EBug

Leaf(n) == [k |-> "L", id |-> n]
Join(kids) == [k |-> "J", c |-> kids]
IsLeaf(t) == t.k = "L"

RECURSIVE Leaves(_)
RECURSIVE LeavesSeq(_, _)
Leaves(t) == IF IsLeaf(t) THEN <<t.id>> ELSE LeavesSeq(t.c, 1)
LeavesSeq(ks, i) == IF i > Len(ks) THEN <<>> ELSE Leaves(ks[i]) \o LeavesSeq(ks, i + 1)

Take(s, n) == SubSeq(s, 1, IF n < Len(s) THEN n ELSE Len(s))

\* st = [out, stop, late]; the consumer's loop body returns FALSE (break) once it has seen k items
Yield(st, x, k) ==
  IF st.stop THEN [st EXCEPT !.late = @ + 1]
  ELSE LET out == Append(st.out, x) IN [out |-> out, stop |-> Len(out) >= k, late |-> st.late]

\* All(t) pushing into st; result <<st', continue?>>
RECURSIVE AllT(_, _, _)
RECURSIVE AllSeq(_, _, _, _)
AllT(t, st, k) ==
  IF IsLeaf(t) THEN LET s2 == Yield(st, t.id, k) IN <<s2, ~s2.stop>>
  ELSE AllSeq(t.c, 1, st, k)
AllSeq(ks, i, st, k) ==
  IF i > Len(ks) THEN <<st, TRUE>>
  ELSE LET r == AllT(ks[i], st, k) IN
       IF ~r[2] /\ EBug # "innerOnly" THEN <<r[1], FALSE>>      \* `return` out of the whole iterator
       ELSE AllSeq(ks, i + 1, r[1], k)

Run(t, k) == AllT(t, [out |-> <<>>, stop |-> FALSE, late |-> 0], k)[1]

\* C19, first sentence: exactly the leaves, each once, in order; stops immediately on break
CorrectFor(t) ==
  \A k \in 1..(Len(Leaves(t)) + 1) :
    LET r == Run(t, k) IN r.out = Take(Leaves(t), k) /\ r.late = 0
=============================================================================
