SPECIFICATION Spec
CONSTANTS
  CBug = "none"
  NameOrder <- NameOrderDef
  AcrhOK <- AcrhOKElems
  AcrhEcho <- AcrhEchoElems
  CheckPairs = FALSE
  DumpSems = FALSE
INVARIANTS BrowserVerdictIsMeaning HeadersWellFormed DebugOnlyDiagnostics VarySufficient VaryPreserved DispatchRule OnlyDocumentedEdits NoDisclosure
CONSTRAINT DumpSem
CHECK_DEADLOCK FALSE
