SPECIFICATION Spec
CONSTANTS
  CBug = "none"
  NameOrder <- NameOrderDef
  AcrhOK <- AcrhOKElems
  AcrhEcho <- AcrhEchoElems
  CheckPairs = FALSE
INVARIANTS BrowserVerdictIsMeaning HeadersWellFormed DebugOnlyDiagnostics VarySufficient VaryPreserved DispatchRule OnlyDocumentedEdits NoDisclosure
CHECK_DEADLOCK FALSE
