------------------------------ MODULE ErrTreeMC ------------------------------
(***************************************************************************)
(* All join trees with at most MaxNodes nodes (any shape and depth: single *)
(* leaves, joins of one, nested joins), leaves numbered in depth-first     *)
(* order; every tree is checked for every break position, and written out  *)
(* for binding G (the driver rebuilds it with the real errors.Join); plus  *)
(* a family of deep trees (nesting 7..65).                                 *)
(***************************************************************************)
EXTENDS ErrTree, Json, CSV, IOUtils

CONSTANTS MaxNodes, DumpCases

\* ordered compositions of m into positive parts
RECURSIVE Comps(_)
Comps(m) == IF m = 0 THEN {<<>>}
            ELSE UNION { { <<f>> \o r : r \in Comps(m - f) } : f \in 1..m }

\* shapes with exactly n nodes (leaf ids filled in afterwards)
RECURSIVE Shapes(_)
RECURSIVE SeqOfShapes(_)
Shapes(n) == IF n = 1 THEN {Leaf(0)}
             ELSE { Join(ks) : ks \in UNION { SeqOfShapes(cp) : cp \in Comps(n - 1) } }
SeqOfShapes(cp) == IF cp = <<>> THEN {<<>>}
                   ELSE { <<h>> \o r : h \in Shapes(cp[1]), r \in SeqOfShapes(Tail(cp)) }

\* number the leaves 1, 2, ... in depth-first order
RECURSIVE Number(_, _)
RECURSIVE NumberSeq(_, _, _)
Number(t, next) == IF IsLeaf(t) THEN <<Leaf(next), next + 1>>
                   ELSE LET r == NumberSeq(t.c, 1, next) IN <<Join(r[1]), r[2]>>
NumberSeq(ks, i, next) == IF i > Len(ks) THEN <<<<>>, next>>
                          ELSE LET h == Number(ks[i], next)  r == NumberSeq(ks, i + 1, h[2])
                               IN << <<h[1]>> \o r[1], r[2] >>

\* DEEP trees, beyond what exhaustive enumeration reaches: chains of joins-of-one, left and right combs, and a comb whose
\* innermost element is a bushy join - nesting depths around the sizes an explicit stack or a small array might have
RECURSIVE Chain(_)
Chain(d) == IF d = 0 THEN Leaf(0) ELSE Join(<<Chain(d - 1)>>)
RECURSIVE CombR(_)
CombR(d) == IF d = 0 THEN Join(<<Leaf(0), Leaf(0), Leaf(0)>>) ELSE Join(<<Leaf(0), CombR(d - 1)>>)
RECURSIVE CombL(_)
CombL(d) == IF d = 0 THEN Leaf(0) ELSE Join(<<CombL(d - 1), Leaf(0)>>)
RECURSIVE CombM(_)
CombM(d) == IF d = 0 THEN Leaf(0) ELSE Join(<<Leaf(0), CombM(d - 1), Leaf(0)>>)
Depths == {7, 8, 9, 15, 16, 17, 31, 32, 33}
DeepTrees == UNION { { Number(Chain(d), 1)[1], Number(CombR(d), 1)[1], Number(CombL(d), 1)[1], Number(CombM(d), 1)[1] } : d \in Depths }

AllTrees == UNION { { Number(s, 1)[1] : s \in Shapes(n) } : n \in 1..MaxNodes } \cup DeepTrees

VARIABLE tree
Init == tree \in AllTrees
Next == UNCHANGED tree
Spec == Init /\ [][Next]_tree

Correct == CorrectFor(tree)
Dump == IF DumpCases THEN CSVWrite("%1$s", <<ToJson(tree)>>, IOEnv.OUT_FILE) ELSE TRUE
=============================================================================
