SPECIFICATION Spec
CONSTANTS
  Slack = 1
  Budget = 12
INVARIANT Final
CHECK_DEADLOCK FALSE
VIEW TraceView
