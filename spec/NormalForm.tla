---------------------------- MODULE NormalForm ----------------------------
(***************************************************************************)
(* The value Config() returns, as a function of what the configuration     *)
(* MEANS (the Sem record of Cors.tla) - the "normal form" that C06 and C07 *)
(* speak about.  Beyond the listed properties (they only require that the  *)
(* normal form round-trips, is stable and is rendered atomically) this     *)
(* module says what it IS, as documented on Config and its fields and as   *)
(* coded in newConfig:                                                     *)
(*   Origins          <<"*">> for allow-all; otherwise a strictly          *)
(*                    increasing (byte order) list of listed patterns in   *)
(*                    canonical spelling that together subsume every       *)
(*                    listed pattern                                       *)
(*   Methods          <<"*">> / the non-safelisted methods, normalised,    *)
(*                    strictly increasing / empty                          *)
(*   RequestHeaders   <<"*">>, <<"*", "authorization">> (anonymous, listed *)
(*                    next to the wildcard) / the byte-lower-case names,   *)
(*                    strictly increasing / empty                          *)
(*   ResponseHeaders  <<"*">> / lower-case non-safelisted names, strictly  *)
(*                    increasing / empty                                   *)
(*   MaxAgeInSeconds, PreflightSuccessStatus (0 for the default 204), the  *)
(*   five switches: as meant.                                              *)
(* All names are sequences of byte codes (TLC cannot order strings).       *)
(***************************************************************************)
EXTENDS Integers, Sequences, FiniteSets

STAR == <<42>>
AUTH == <<97, 117, 116, 104, 111, 114, 105, 122, 97, 116, 105, 111, 110>>     \* "authorization"
Range(f) == {f[x] : x \in DOMAIN f}

RECURSIVE LessFrom(_, _, _)
LessFrom(a, b, i) ==
  IF i > Len(a) THEN i <= Len(b)
  ELSE IF i > Len(b) THEN FALSE
  ELSE IF a[i] < b[i] THEN TRUE
  ELSE IF a[i] > b[i] THEN FALSE
  ELSE LessFrom(a, b, i + 1)
Less(a, b) == LessFrom(a, b, 1)
StrictlyIncreasing(s) == \A i \in 1..(Len(s) - 1) : Less(s[i], s[i + 1])

\* the unique strictly increasing list with the given range
IsSortedListOf(list, set) == StrictlyIncreasing(list) /\ Range(list) = set

(***************************************************************************)
(* Syntactic subsumption of origin patterns                                *)
(* [scheme, wild, host, port (0 = none, 65536 = any)].                     *)
(***************************************************************************)
AnyPort == 65536
IsSuffix(s, t) == Len(s) <= Len(t) /\ SubSeq(t, Len(t) - Len(s) + 1, Len(t)) = s
Subsumes(q, p) ==            \* everything p denotes, q denotes
  /\ q.scheme = p.scheme
  /\ (q.port = AnyPort \/ q.port = p.port)
  /\ IF q.wild
       THEN IF p.wild THEN p.host = q.host \/ IsSuffix(<<46>> \o q.host, p.host)
                      ELSE Len(p.host) > Len(q.host) + 1 /\ IsSuffix(<<46>> \o q.host, p.host)
       ELSE ~p.wild /\ p.host = q.host

(***************************************************************************)
(* sem: [any, pats (sequence of [scheme, wild, host, port, str]), cred,    *)
(*       mAny, meths, hStar, hAuth, hNames, maxAge, expose, status, pna]   *)
(* out: the Config() value [origins, cred, methods, reqh, maxAge, resph,   *)
(*       status, pna, nocors]                                              *)
(***************************************************************************)
\* Deviation D1 of the code from the ideal normal form (found by this module, DESIGN.md 11.7): node.add offsets the port of a
\* `*.` pattern and then calls node.contains, which offsets it AGAIN, so add never recognises a `*.` entry it already has: a
\* repeated `*.` pattern is stored - and rendered by Elems - once per insertion, and stays so across round trips.  Harmless
\* for matching (no listed property is affected), so the model follows the code: equal neighbours are tolerated exactly for
\* `*.` patterns.  Ideal == TRUE demands the strict order.
WILD == <<42, 46>>
IsWildStr(str) == \E i \in 1..(Len(str) - 1) : SubSeq(str, i, i + 1) = WILD
IncreasingButD1(s) == \A i \in 1..(Len(s) - 1) : Less(s[i], s[i + 1]) \/ (s[i] = s[i + 1] /\ IsWildStr(s[i]))
OriginsOKWith(sem, out, ideal) ==
  IF sem.any THEN out.origins = <<STAR>>
  ELSE LET listed == Range(sem.pats)
           kept   == { p \in listed : p.str \in Range(out.origins) }
       IN /\ IF ideal THEN StrictlyIncreasing(out.origins) ELSE IncreasingButD1(out.origins)
          /\ Range(out.origins) \subseteq { p.str : p \in listed }            \* nothing invented
          /\ \A p \in listed : \E q \in kept : Subsumes(q, p)                 \* nothing lost
OriginsOK(sem, out) == OriginsOKWith(sem, out, FALSE)
HasD1(out) == ~StrictlyIncreasing(out.origins) /\ IncreasingButD1(out.origins)
MethodsOK(sem, out)  == IF sem.mAny THEN out.methods = <<STAR>> ELSE IsSortedListOf(out.methods, Range(sem.meths))
ReqHdrsOK(sem, out)  == IF sem.hStar
                          THEN out.reqh = (IF ~sem.cred /\ sem.hAuth THEN <<STAR, AUTH>> ELSE <<STAR>>)
                          ELSE IsSortedListOf(out.reqh, Range(sem.hNames))
RespHdrsOK(sem, out) == IF STAR \in Range(sem.expose) THEN out.resph = <<STAR>> ELSE IsSortedListOf(out.resph, Range(sem.expose))
ScalarsOK(sem, out)  == /\ out.maxAge = sem.maxAge
                        /\ out.status = (IF sem.status = 204 THEN 0 ELSE sem.status)
                        /\ out.cred = sem.cred
                        /\ out.pna = (sem.pna = "cors") /\ out.nocors = (sem.pna = "nocors")

Mismatches(sem, out) ==
  (IF OriginsOK(sem, out) THEN {} ELSE {"Origins"}) \cup (IF MethodsOK(sem, out) THEN {} ELSE {"Methods"})
  \cup (IF ReqHdrsOK(sem, out) THEN {} ELSE {"RequestHeaders"}) \cup (IF RespHdrsOK(sem, out) THEN {} ELSE {"ResponseHeaders"})
  \cup (IF ScalarsOK(sem, out) THEN {} ELSE {"scalars"})
IsNormalFormOf(out, sem) == Mismatches(sem, out) = {}
=============================================================================
