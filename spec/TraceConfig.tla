---------------------------- MODULE TraceConfig ----------------------------
(***************************************************************************)
(* Trace specification for C04, C05 and the second sentence of C19         *)
(* (binding T).  Every "Validate" event is one call of NewMiddleware or    *)
(* Reconfigure on the REAL library with a Config assembled from labelled   *)
(* atoms, together with the outcome and the errors yielded by              *)
(* cfgerrors.All.  The constant Prop selects the predicate:                *)
(*   C04 : accepted => NoProhibitionViolated ; rejected by NewMiddleware   *)
(*         => nil *Middleware                                              *)
(*   C05 : accepted <=> Violations = {} ; every yielded error is a non-nil *)
(*         pointer to an exported cfgerrors type with a "cors: " message;  *)
(*         the SUPPORT of the yielded errors equals Violations             *)
(*   C19 : count(All(err)) = number of leaves of the join tree (found by   *)
(*         the driver walking Unwrap() []error itself) and >= the number   *)
(*         of distinct expected violations                                 *)
(***************************************************************************)
EXTENDS Config, IOUtils

CONSTANT Prop

Trace == ndJsonDeserialize(IOEnv.TRACE_FILE)

VARIABLES l, bad, stats
vars == <<l, bad, stats>>
\* The monitor is a deterministic chain, one state per consumed event: fingerprinting the position alone (cfg: VIEW TraceView)
\* keeps validation linear however large `bad`, the references or the block grow.
TraceView == l

Matches(o, x) == o.t = x.t /\ o.v = x.v /\ o.r \in x.rs /\ (o.t \in {"MaxAgeOutOfBoundsError", "PreflightSuccessStatusOutOfBoundsError"} => o.x \in x.rs)
ObsOf(err) == [t |-> err.t, v |-> err.v, r |-> IF err.t \in {"MaxAgeOutOfBoundsError", "PreflightSuccessStatusOutOfBoundsError"} THEN err.x ELSE err.r, x |-> err.x]

C04why(e) ==
  (IF e.ok /\ ~NoProhibitionViolated(e.cfg) THEN {"a configuration violating a documented prohibition was accepted"} ELSE {})
  \cup (IF ~e.ok /\ e.via = "new" /\ ~e.nilmw THEN {"NewMiddleware returned an error together with a non-nil *Middleware"} ELSE {})
  \cup (IF e.ok /\ e.via = "new" /\ e.nilmw THEN {"NewMiddleware returned neither an error nor a middleware"} ELSE {})

C05why(e) ==
  LET exp == Violations(e.cfg)
      obs == { ObsOf(e.errs[i]) : i \in DOMAIN e.errs }
  IN (IF e.ok # (exp = {}) THEN {IF e.ok THEN "a configuration with violations was accepted" ELSE "a valid configuration was rejected"} ELSE {})
     \cup (IF \E i \in DOMAIN e.errs : ~e.errs[i].ptr \/ ~e.errs[i].pfx \/ e.errs[i].t = "other"
             THEN {"a yielded error is not a non-nil pointer to an exported cfgerrors type with a cors:-prefixed message"} ELSE {})
     \cup (IF ~e.ok /\ \E x \in exp : ~\E o \in obs : Matches(o, x) THEN {"a violation was not reported (or with the wrong type / value / reason / bounds)"} ELSE {})
     \cup (IF ~e.ok /\ \E o \in obs : ~\E x \in exp : Matches(o, x) THEN {"an error was reported that corresponds to no violation"} ELSE {})

C19why(e) ==
  IF e.ok THEN {}
  ELSE (IF e.nyield # e.nleaves THEN {"cfgerrors.All yielded a different number of errors than the join tree has leaves"} ELSE {})
       \cup (IF e.nyield # e.nlines THEN {"cfgerrors.All yielded a different number of errors than violations are reported (lines of the message)"} ELSE {})
       \cup (IF e.nyield < Cardinality(Violations(e.cfg)) THEN {"fewer errors yielded than distinct violations"} ELSE {})
       \cup (IF e.panicked THEN {"cfgerrors.All panicked"} ELSE {})

Why(e) == CASE Prop = "C04" -> C04why(e) [] Prop = "C05" -> C05why(e) [] OTHER -> C19why(e)

Validate ==
  /\ l <= Len(Trace) /\ Trace[l].ev = "Validate" /\ l' = l + 1
  /\ LET e == Trace[l]  w == Why(e) IN
     /\ bad' = bad \cup { <<l, r>> : r \in w }
     /\ stats' = [stats EXCEPT !.accepted = @ + (IF e.ok THEN 1 ELSE 0),
                               !.rejected = @ + (IF e.ok THEN 0 ELSE 1),
                               !.multi = @ + (IF Cardinality(Violations(e.cfg)) >= 2 THEN 1 ELSE 0)]
Skip == /\ l <= Len(Trace) /\ Trace[l].ev # "Validate" /\ l' = l + 1 /\ UNCHANGED <<bad, stats>>

Init == l = 1 /\ bad = {} /\ stats = [accepted |-> 0, rejected |-> 0, multi |-> 0]
Next == Validate \/ Skip
Spec == Init /\ [][Next]_vars
Final == (l = Len(Trace) + 1) =>
           JsonSerialize(IOEnv.RESULT_FILE, [bad |-> bad, consumed |-> l - 1, total |-> Len(Trace), stats |-> stats])
=============================================================================
