SPECIFICATION Spec
CONSTANTS
  MaxList = 2
  DumpCases = TRUE
INVARIANTS FormulationsAgree BaseIsAcceptable
CONSTRAINT Dump
CHECK_DEADLOCK FALSE
