----------------------------- MODULE PatParseMC -----------------------------
(***************************************************************************)
(* Bounded configuration of PatParse.tla + generator (binding G of C13):   *)
(* every byte string of <= MaxTail bytes over {a, 1, 0, 8, -, ., *, :}     *)
(* appended to each of the prefixes "h://", "http://", "https://".         *)
(*   GrammarMeansScanner: outside the grey zones the implementation-shaped *)
(*   model accepts exactly the documented form.                            *)
(***************************************************************************)
EXTENDS PatParse, Json, CSV, IOUtils

CONSTANTS MaxTail, DumpCases

Prefixes == { <<104, 58, 47, 47>>, HTTP \o <<58, 47, 47>>, HTTPS \o <<58, 47, 47>> }
Alphabet == {97, 49, 48, 56, 45, 46, 42, 58}      \* a 1 0 8 - . * :

VARIABLES pre, tail
vars == <<pre, tail>>
Init == pre \in Prefixes /\ tail = <<>>
Next == Len(tail) < MaxTail /\ (\E c \in Alphabet : tail' = Append(tail, c)) /\ UNCHANGED pre
Spec == Init /\ [][Next]_vars

Bytes == pre \o tail
GrammarMeansScanner == ~Grey(Bytes) => (Accepts(Bytes) = DocValid(Bytes))
Dump == IF DumpCases THEN CSVWrite("%1$s", <<ToJson([b |-> Bytes, acc |-> Accepts(Bytes), doc |-> DocValid(Bytes), grey |-> Grey(Bytes)])>>, IOEnv.OUT_FILE) ELSE TRUE
=============================================================================
