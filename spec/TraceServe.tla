----------------------------- MODULE TraceServe -----------------------------
(***************************************************************************)
(* Trace specification for the per-request properties C03, C10, C11 and    *)
(* C16 (binding T).  A trace is a sequence of                              *)
(*   Config   - the semantic configuration the driver spelled as a Config  *)
(*   Block / EndBlock - one (configuration, debug mode, pre-set headers)   *)
(*   Serve    - one request served by the REAL middleware, with the        *)
(*              request, the recorded response and the spy handler's       *)
(*              observations                                               *)
(* The constant Prop selects which property's predicate the monitor        *)
(* evaluates on every Serve event (C10: on all ordered pairs of a block).  *)
(* Total monitor: offending event indices are collected in `bad`.          *)
(***************************************************************************)
EXTENDS Integers, Sequences, FiniteSets, TLC, Json, IOUtils, Origins, OriginSyntax, ReqParse

CONSTANT Prop

Trace == ndJsonDeserialize(IOEnv.TRACE_FILE)

Range(f) == {f[x] : x \in DOMAIN f}
Get(h, k) == IF k \in DOMAIN h THEN h[k] ELSE <<>>
TokenSet(h, k) == UNION { Range(line) : line \in Range(Get(h, k)) }
AUTH == "authorization"

VARIABLES l, sem, pats, bad, known, block, failStatus, stats, pos
vars == <<l, sem, pats, bad, known, block, failStatus, stats, pos>>
\* The monitor is a deterministic chain, one state per consumed event: fingerprinting the position alone (cfg: VIEW TraceView)
\* keeps validation linear however large `bad`, the references or the block grow.
TraceView == l

Ev(e) == l <= Len(Trace) /\ Trace[l].ev = e /\ l' = l + 1

PatsOf(j) == { [scheme |-> p.scheme, wild |-> p.wild, host |-> p.host, port |-> p.port] : p \in Range(j.patsb) }
MaxAgeValue(s) == IF s.maxAge = -1 THEN <<"0">> ELSE IF s.maxAge = 0 THEN <<>> ELSE <<ToString(s.maxAge)>>

IsPreflightReq(e) == e.m = "OPTIONS" /\ e.no > 0 /\ Len(e.acrm) > 0

(***************************************************************************)
(* C03 - CORS response headers are well-formed and never over-grant.       *)
(***************************************************************************)
PreflightOnly == {"ACAM", "ACAH", "ACAPN", "ACMA"}
\* `allowed`: is the first Origin value the serialization of an origin the configuration allows?
C03okWith(e, allowed) ==
  LET h    == e.resp.hdrs
      acao == Get(h, "ACAO")
      acac == Get(h, "ACAC")
      hasO == e.no > 0
      star == acao = <<"*">>
      echo == Len(acao) = 1 /\ hasO /\ e.acaob[1] = e.o1b
  IN /\ Len(acao) <= 1
     /\ (Len(acao) = 1 => star \/ echo)                                   \* 1
     /\ (star => sem.any /\ ~sem.cred)                                    \* 2
     /\ ((echo /\ ~star) => allowed)                                      \* 3
     /\ (acac # <<>> => acac = <<"true">> /\ sem.cred /\ echo /\ ~star /\ allowed)   \* 4
     /\ ((~sem.any /\ ~allowed) => DOMAIN h \subseteq {"Vary"})           \* 5
     /\ (DOMAIN h \cap PreflightOnly # {} => IsPreflightReq(e))           \* 6
     /\ ("ACEH" \in DOMAIN h => ~IsPreflightReq(e))
     /\ ("ACMA" \in DOMAIN h => h["ACMA"] = MaxAgeValue(sem))             \* 7
     /\ ("ACEH" \in DOMAIN h => TokenSet(h, "ACEH") = Range(sem.exposeSet) /\ Len(h["ACEH"]) = 1)
     /\ DOMAIN h \subseteq {"Vary", "ACAO", "ACAC", "ACAM", "ACAH", "ACAPN", "ACMA", "ACEH"}

\* the property as stated: strict reading of the bytes (OriginSyntax) + Origins!Allowed
StrictAllowed(e) ==
  LET so == IF e.no > 0 THEN SerializedOrigin(e.o1b) ELSE NotAnOrigin
  IN so.ok /\ (sem.any \/ Allowed(pats, [scheme |-> so.scheme, host |-> so.host, port |-> so.port]))
C03ok(e) == C03okWith(e, StrictAllowed(e))

\* Known finding F4: the lenient request-side scanner (ReqParse.tla) strips the brackets around ANY host, so a
\* bracketed host that is not an IPv6 literal is looked up by its content. An offending event is an instance of F4
\* exactly when its host is bracketed and the response is right under that lenient reading and wrong only for it
\* (the strict recogniser is permissive about what may stand between brackets - `[::.a]` passes it - so its verdict on
\* the brackets' content is deliberately not part of the classification).
ValueOf(h) == IF h # <<>> /\ h[1] = 91 THEN SubSeq(h, 2, Len(h) - 1) ELSE h
LenientAllowed(e) ==
  LET pr == IF e.no > 0 THEN Parse(e.o1b) ELSE [ok |-> FALSE] IN
  pr.ok /\ (sem.any \/ \E p \in pats :
               /\ p.scheme = pr.scheme
               /\ IF p.wild THEN Len(pr.host) > Len(p.host) + 1 /\ IsSuffixOf(<<46>> \o p.host, pr.host)
                            ELSE pr.host = ValueOf(p.host)
               /\ (p.port = AnyPort \/ p.port = pr.port))
BracketedHost(b) == \E i \in 1..(Len(b) - 3) : b[i] = 58 /\ b[i + 1] = 47 /\ b[i + 2] = 47 /\ b[i + 3] = 91
                                                /\ \A j \in 1..(i - 1) : b[j] # 58
C03isF4(e) == /\ ~C03ok(e) /\ e.no > 0 /\ BracketedHost(e.o1b)
              /\ C03okWith(e, LenientAllowed(e))
\* Layered events: the middleware ran behind another layer (an outer middleware of this library, or a layer leaving behind what
\* one leaves behind) that had already set response headers. e.resp is what the middleware EMITTED - added to or replaced in the
\* header map it was handed - leaving out entries that are the very slices that were there before; e.resp2 counts those in
\* (the middleware may have stored the same slice again). The response is in order if it is under either reading; with more
\* than one such Access-Control-* entry the readings multiply and no verdict is given.
Layered(e) == "layer" \in DOMAIN e
Second(e) == [e EXCEPT !.resp = e.resp2, !.acaob = e.acaob2]
C03layeredOk(e) == C03ok(e) \/ C03ok(Second(e)) \/ e.amb > 1
C03layeredF4(e) == ~C03layeredOk(e) /\ (C03isF4(e) \/ C03isF4(Second(e)))

(***************************************************************************)
(* C16 - with debug off, preflight responses disclose nothing beyond what  *)
(* was asked.  A preflight "succeeds" when it gets an ok status and an     *)
(* Access-Control-Allow-Origin header; anything else is a failure.         *)
(***************************************************************************)
Succeeds(e) == e.resp.status \in 200..299 /\ "ACAO" \in DOMAIN e.resp.hdrs
C16applies(e) == ~e.dbg /\ IsPreflightReq(e)
C16ok(e, fs) ==
  LET h == e.resp.hdrs IN
  IF Succeeds(e)
    THEN /\ Range(Get(h, "ACAO")) \subseteq {"*"} \cup Range(e.origin)
         /\ Range(Get(h, "ACAC")) \subseteq {"true"}
         /\ Range(Get(h, "ACAPN")) \subseteq {"true"}
         /\ TokenSet(h, "ACAM") \subseteq {"*"} \cup UNION { Range(t) : t \in Range(e.acrmt) }
         /\ TokenSet(h, "ACAH") \subseteq {"*"} \cup UNION { Range(t) : t \in Range(e.acrht) }
                                    \cup (IF ~sem.cred /\ sem.hStar /\ sem.hAuth THEN {AUTH} ELSE {})
         /\ Get(h, "ACMA") = MaxAgeValue(sem)
         /\ DOMAIN h \subseteq {"Vary", "ACAO", "ACAC", "ACAM", "ACAH", "ACAPN", "ACMA"}
    ELSE /\ DOMAIN h \subseteq {"Vary"}
         /\ (fs = 0 \/ e.resp.status = fs)

(***************************************************************************)
(* C09 (last sentence) - debug mode changes only the diagnostics attached  *)
(* to failing preflights.  `off` and `on` are the same request served with *)
(* debug off and on.  Reading (DESIGN.md): a failing preflight may get an  *)
(* ok status and partial headers; a succeeding one may get the full        *)
(* configured list in Access-Control-Allow-Headers instead of the          *)
(* reflected one; nothing else may differ, on no other request.            *)
(***************************************************************************)
Same(off, on) == off.resp.status = on.resp.status /\ off.final = on.final /\ off.invoked = on.invoked /\ off.body = on.body
C09ok(off, on) ==
  \/ Same(off, on)
  \/ /\ IsPreflightReq(on) /\ off.m = on.m /\ off.req = on.req
     /\ \/ ~Succeeds(off) /\ DOMAIN off.resp.hdrs \subseteq {"Vary"}
        \/ /\ Succeeds(off) /\ Succeeds(on) /\ off.resp.status = on.resp.status
           /\ [k \in DOMAIN off.resp.hdrs \ {"ACAH"} |-> off.resp.hdrs[k]] = [k \in DOMAIN on.resp.hdrs \ {"ACAH"} |-> on.resp.hdrs[k]]
           /\ TokenSet(on.resp.hdrs, "ACAH") = Range(sem.hNames) /\ Len(Get(on.resp.hdrs, "ACAH")) = 1

(***************************************************************************)
(* C11 - preflights are answered by the middleware alone; everything else  *)
(* passes intact.                                                          *)
(***************************************************************************)
MayAdd == {"vary", "access-control-allow-origin", "access-control-allow-credentials", "access-control-expose-headers"}
IsPrefix(p, s) == Len(p) <= Len(s) /\ SubSeq(s, 1, Len(p)) = p
C11ok(e) ==
  LET handled == e.invoked = 0 IN
  /\ handled = (~sem.pass /\ IsPreflightReq(e))
  /\ (handled => e.body = 0)
  /\ (~handled =>
        /\ e.invoked = 1 /\ e.sameReq /\ e.sameW
        /\ \A k \in DOMAIN e.pre : k \in DOMAIN e.entry
        /\ \A k \in DOMAIN e.pre \ MayAdd : e.entry[k] = e.pre[k]
        /\ DOMAIN e.entry \ DOMAIN e.pre \subseteq MayAdd
        /\ IsPrefix(Get(e.pre, "vary"), Get(e.entry, "vary"))
        /\ (sem.pass => e.entry = e.pre)
        /\ e.final = e.after                      \* nothing is touched after the handler returned
        /\ e.resp.status = e.hstatus /\ e.body = e.hbody)

(***************************************************************************)
(* C10 - Vary is sufficient (all ordered pairs of a block), and pre-set    *)
(* Vary values are preserved.                                              *)
(***************************************************************************)
VaryTokens(e) == UNION { Range(t) : t \in Range(e.varyt) }
Proj(req, N) == [n \in N |-> Get(req, n)]
Summary(e, idx) == [idx |-> idx, m |-> e.m, names |-> VaryTokens(e), req |-> e.req,
                    treat |-> <<e.resp.status, e.final, e.invoked>>]
C10pairsBad(evs) ==
  LET keys == { <<evs[i].m, evs[i].names>> : i \in DOMAIN evs }
      P(key) == { <<Proj(evs[j].req, key[2]), evs[j].treat>> : j \in { j \in DOMAIN evs : evs[j].m = key[1] } }
      tbl == [key \in keys |-> P(key)]
  IN { evs[i].idx : i \in { i \in DOMAIN evs :
         \E q \in tbl[<<evs[i].m, evs[i].names>>] :
            q[1] = Proj(evs[i].req, evs[i].names) /\ q[2] # evs[i].treat } }
C10preserved(e) == IsPrefix(Get(e.pre, "vary"), Get(e.final, "vary"))

(***************************************************************************)
(* The monitor.                                                            *)
(***************************************************************************)
Config == /\ Ev("Config")
          /\ sem' = Trace[l].sem /\ pats' = PatsOf(Trace[l].sem)
          /\ UNCHANGED <<bad, known, block, failStatus, stats, pos>>
Rejected == /\ l <= Len(Trace) /\ Trace[l].ev \in {"Rejected", "Names"} /\ l' = l + 1
            /\ UNCHANGED <<sem, pats, bad, known, block, failStatus, stats, pos>>
\* a handler that calls back into its own middleware (Config, SetDebug, Reconfigure(Config())) never returned: its response
\* does not reach the client (C11)
\* ... or a call into the library blocked for good and a plain request sent through the middleware afterwards never came back
\* (the driver's watchdog; `reqhang`): the wrapped handler is not reached
Hang == /\ Ev("Hang") /\ bad' = (IF Prop = "C11" /\ Trace[l].reqhang THEN bad \cup {l} ELSE bad)
        /\ UNCHANGED <<sem, pats, known, block, failStatus, stats, pos>>
\* the header map of a response the handler had not committed changed after the middleware returned (other middlewares served
\* requests in between): the client gets headers that are not this response's (C03: well-formedness; C12: independence)
LateChange == /\ Ev("LateChange") /\ bad' = (IF Prop \in {"C03", "C12", "C10"} THEN bad \cup {l} ELSE bad)
              /\ UNCHANGED <<sem, pats, known, block, failStatus, stats, pos>>
Panic == Ev("Panic") /\ UNCHANGED <<sem, pats, bad, known, block, failStatus, stats, pos>>   \* C17's business
BlockStart == /\ Ev("Block")
              /\ block' = IF Prop = "C09" /\ Trace[l].dbg THEN block ELSE <<>>   \* C09: the debug-on block is compared
              /\ pos' = 1                                                         \* position by position with the debug-off one
              /\ failStatus' = 0 /\ UNCHANGED <<sem, pats, bad, known, stats>>
BlockEnd == /\ Ev("EndBlock")
            /\ bad' = IF Prop = "C10" THEN bad \cup C10pairsBad(block) ELSE bad
            /\ block' = IF Prop = "C09" THEN block ELSE <<>>
            /\ UNCHANGED <<sem, pats, known, failStatus, stats, pos>>

Serve ==
  /\ Ev("Serve")
  /\ LET e == Trace[l] IN
     CASE Prop = "C03" ->
            /\ bad' = IF C03ok(e) \/ C03isF4(e) \/ (Layered(e) /\ (C03layeredOk(e) \/ C03layeredF4(e))) THEN bad ELSE bad \cup {l}
            /\ known' = IF C03isF4(e) \/ (Layered(e) /\ C03layeredF4(e)) THEN known \cup {l} ELSE known
            /\ stats' = [stats EXCEPT !.a = @ + (IF "ACAO" \in DOMAIN e.resp.hdrs THEN 1 ELSE 0),
                                      !.b = @ + (IF IsPreflightReq(e) THEN 1 ELSE 0)]
            /\ UNCHANGED <<block, failStatus>>
       [] Prop = "C16" ->
            /\ bad' = IF C16applies(e) /\ ~C16ok(e, failStatus) THEN bad \cup {l} ELSE bad
            /\ failStatus' = IF C16applies(e) /\ ~Succeeds(e) /\ failStatus = 0 THEN e.resp.status ELSE failStatus
            /\ stats' = [stats EXCEPT !.a = @ + (IF C16applies(e) /\ Succeeds(e) THEN 1 ELSE 0),
                                      !.b = @ + (IF C16applies(e) /\ ~Succeeds(e) THEN 1 ELSE 0)]
            /\ UNCHANGED <<block, known>>
       [] Prop = "C11" ->
            /\ bad' = IF C11ok(e) THEN bad ELSE bad \cup {l}
            /\ stats' = [stats EXCEPT !.a = @ + (IF e.invoked = 0 THEN 1 ELSE 0),
                                      !.b = @ + (IF e.invoked = 1 THEN 1 ELSE 0)]
            /\ UNCHANGED <<block, failStatus, known>>
       [] Prop = "C09" ->
            /\ bad' = IF e.dbg /\ (pos > Len(block) \/ ~C09ok(block[pos], e)) THEN bad \cup {l} ELSE bad
            /\ block' = IF e.dbg THEN block ELSE Append(block, e)
            /\ stats' = [stats EXCEPT !.a = @ + (IF e.dbg /\ pos <= Len(block) /\ block[pos].final # e.final THEN 1 ELSE 0),
                                      !.b = @ + (IF e.dbg THEN 1 ELSE 0)]
            /\ UNCHANGED <<failStatus, known>>
       [] Prop = "C12" ->
            \* history independence: the long-lived middleware (reconfigured from configuration to configuration, having served
            \* thousands of requests) answers exactly like a middleware created for this one request
            /\ bad' = IF "fresh" \in DOMAIN e => (e.resp = e.fresh /\ e.final = e.freshfinal /\ e.invoked = e.freshinvoked)
                         THEN bad ELSE bad \cup {l}
            /\ stats' = [stats EXCEPT !.a = @ + (IF "fresh" \in DOMAIN e THEN 1 ELSE 0),
                                      !.b = @ + (IF "fresh" \in DOMAIN e /\ IsPreflightReq(e) THEN 1 ELSE 0)]
            /\ UNCHANGED <<block, failStatus, known>>
       [] Prop = "C10" ->
            /\ bad' = IF C10preserved(e) THEN bad ELSE bad \cup {l}
            /\ block' = Append(block, Summary(e, l))
            /\ stats' = [stats EXCEPT !.a = @ + 1, !.b = @ + Len(block)]      \* b = ordered pairs / 2
            /\ UNCHANGED <<failStatus, known>>
  /\ UNCHANGED <<sem, pats>>
  /\ pos' = IF Prop = "C09" /\ Trace[l].dbg THEN pos + 1 ELSE pos

Init == l = 1 /\ sem = [pass |-> TRUE] /\ pats = {} /\ bad = {} /\ known = {} /\ block = <<>> /\ failStatus = 0
        /\ stats = [a |-> 0, b |-> 0] /\ pos = 1
Next == Config \/ Rejected \/ Panic \/ Hang \/ LateChange \/ BlockStart \/ BlockEnd \/ Serve
Spec == Init /\ [][Next]_vars

Final == (l = Len(Trace) + 1) =>
           JsonSerialize(IOEnv.RESULT_FILE, [bad |-> bad, known |-> known, consumed |-> l - 1, total |-> Len(Trace), stats |-> stats])
=============================================================================
