---------------------------- MODULE MwInductive ----------------------------
(***************************************************************************)
(* Unbounded check (Apalache) of the small inductive core of the life      *)
(* cycle: with SetDebug as documented, "the debug mode of a passthrough    *)
(* middleware is invariably off" is an INDUCTIVE invariant of the          *)
(* sequential state machine of MwState.tla - for any set of configuration  *)
(* identities, any history length.                                         *)
(*   apalache-mc check --init=IndInit --inv=IndInv --length=1 ...          *)
(*   apalache-mc check --init=Init    --inv=IndInv --length=0 ...          *)
(***************************************************************************)
EXTENDS Naturals

CONSTANTS
  \* @type: Set(Str);
  Cfgs,
  \* @type: Str;
  Nil

VARIABLES
  \* @type: Str;
  icfg,
  \* @type: Bool;
  debug

ConstInit == Cfgs = {"A", "B", "C"} /\ Nil = "nil"

TypeOK == icfg \in Cfgs \cup {Nil} /\ debug \in BOOLEAN
IndInv == TypeOK /\ (icfg = Nil => ~debug)

Init == icfg \in Cfgs \cup {Nil} /\ debug = FALSE            \* NewMiddleware(c) / the zero value
IndInit == IndInv                                            \* any state satisfying the invariant

SetDebug(b) == icfg' = icfg /\ debug' = (b /\ icfg # Nil)
Reconfigure(c) == icfg' = c /\ debug' = ((c # Nil) /\ debug)
Rejected == UNCHANGED <<icfg, debug>>
\* negative twin: SetDebug as the unrepaired code had it (finding F2) - the invariant is then NOT inductive
SetDebugF2(b) == icfg' = icfg /\ debug' = b
NextF2 == \/ \E b \in BOOLEAN : SetDebugF2(b)
          \/ \E c \in Cfgs \cup {Nil} : Reconfigure(c)
          \/ Rejected
Next == \/ \E b \in BOOLEAN : SetDebug(b)
        \/ \E c \in Cfgs \cup {Nil} : Reconfigure(c)
        \/ Rejected
=============================================================================
