SPECIFICATION Spec
CONSTANTS
  PBug = "none"
  MaxTail = 5
  DumpCases = FALSE
INVARIANTS ParseInBounds LenientSound LenientComplete
CONSTRAINT Dump
CHECK_DEADLOCK FALSE
