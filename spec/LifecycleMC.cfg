SPECIFICATION Spec
CONSTANTS
  Nil = "nil"
  MBug = "none"
  MaxLen = 4
  DumpCases = FALSE
INVARIANTS PassthroughHasDebugOff DebugOffAfterCreation
CONSTRAINT Dump
CHECK_DEADLOCK FALSE
