------------------------------ MODULE MultiMC ------------------------------
(***************************************************************************)
(* Generator (binding G for C12; also exercises C08/C09 with several       *)
(* middlewares alive at once): all histories of bounded length over two    *)
(* middlewares and the operations                                          *)
(*   New(i, A|B)  Reconf(i, A|B|nil|invalid)  SetDebug(i, b)               *)
(*   MutateArg(i)     - the caller overwrites, in place, the slices of the *)
(*                      Config it last passed to middleware i              *)
(*   MutateResult(i)  - the caller overwrites the slices of i's Config()   *)
(*   ServeMut(i)      - middleware i serves the probe suite through a      *)
(*                      wrapped handler that overwrites every header slice *)
(*                      it can reach                                       *)
(* with the documented state machine as transition relation: the three     *)
(* adversarial operations are STUTTERING steps of the abstract state -     *)
(* which is exactly what C12 asserts.  Every maximal history is written    *)
(* out; the driver replays it and observes both middlewares after every    *)
(* step; TraceLifecycle validates.                                         *)
(***************************************************************************)
EXTENDS Naturals, Sequences, TLC, Json, CSV, IOUtils, MwState

CONSTANTS MaxLen, DumpCases

MW == {1, 2}
Ops == { [k |-> "new", i |-> i, c |-> c] : i \in MW, c \in {"A", "B"} }
       \cup { [k |-> "reconf", i |-> i, c |-> c] : i \in MW, c \in {"A", "B", "nil", "invalid"} }
       \cup { [k |-> "setdebug", i |-> i, b |-> b] : i \in MW, b \in BOOLEAN }
       \cup { [k |-> x, i |-> i] : x \in {"mutarg", "mutresult", "servemut"}, i \in MW }

VARIABLES st, hist
vars == <<st, hist>>

None == [icfg |-> "none", debug |-> FALSE]         \* middleware i does not exist yet
Exists(i) == st[i] # None

Apply(o) ==
  CASE o.k = "new"      -> [st EXCEPT ![o.i] = NewState(o.c)]
    [] o.k = "reconf"   -> IF o.c = "invalid" THEN st ELSE [st EXCEPT ![o.i] = CommitState(st[o.i], o.c)]
    [] o.k = "setdebug" -> [st EXCEPT ![o.i] = SetDebugState(st[o.i], o.b)]
    [] OTHER            -> st                          \* caller-side mutation and mutating handlers: stuttering
Enabled(o) == o.k = "new" \/ Exists(o.i)

Init == st = [i \in MW |-> None] /\ hist = <<>>
Next == /\ Len(hist) < MaxLen
        /\ \E o \in Ops : Enabled(o) /\ st' = Apply(o) /\ hist' = Append(hist, o)
Spec == Init /\ [][Next]_vars

PassthroughHasDebugOff == \A i \in MW : st[i].icfg = Nil => ~st[i].debug
Dump == IF DumpCases /\ Len(hist) = MaxLen THEN CSVWrite("%1$s", <<ToJson(hist)>>, IOEnv.OUT_FILE) ELSE TRUE
=============================================================================
