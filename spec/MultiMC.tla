------------------------------ MODULE MultiMC ------------------------------
(***************************************************************************)
(* Generator (binding G for C12; also exercises C08/C09 with several       *)
(* middlewares alive at once): all histories of bounded length over two    *)
(* middlewares and the operations                                          *)
(*   New(i, A|B)  Reconf(i, A|B|nil|invalid)  SetDebug(i, b)               *)
(*   MutateArg(i)     - the caller overwrites, in place, the slices of the *)
(*                      Config it last passed to middleware i              *)
(*   MutateResult(i)  - the caller overwrites the slices of i's Config()   *)
(*   ServeMut(i)      - middleware i serves the probe suite through a      *)
(*                      wrapped handler that overwrites every header slice *)
(*                      it can reach                                       *)
(* with the documented state machine as transition relation: the three     *)
(* adversarial operations are STUTTERING steps of the abstract state -     *)
(* which is exactly what C12 asserts.  Every maximal history is written    *)
(* out; the driver replays it and observes both middlewares after every    *)
(* step; TraceLifecycle validates.                                         *)
(***************************************************************************)
EXTENDS Naturals, Sequences, TLC, Json, CSV, IOUtils, MwState

CONSTANTS MaxLen, DumpCases

MW == {1, 2}
Ops == { [k |-> "new", i |-> i, c |-> c] : i \in MW, c \in {"A", "B"} }
       \cup { [k |-> "reconf", i |-> i, c |-> c] : i \in MW, c \in {"A", "B", "nil", "invalid"} }
       \cup { [k |-> "setdebug", i |-> i, b |-> b] : i \in MW, b \in BOOLEAN }
       \cup { [k |-> x, i |-> i] : x \in {"mutarg", "mutresult", "servemut", "reuse"}, i \in MW }
\* "reuse": the caller edits, IN PLACE, one element of the Config it last passed to middleware i (still a valid Config, now
\* named <old name>R) and passes the very same value to Reconfigure again: the middleware must take up the new content.

VARIABLES st, hist, arg     \* arg[i]: what the Config value last passed to middleware i now contains
vars == <<st, hist, arg>>

None == [icfg |-> "none", debug |-> FALSE]         \* middleware i does not exist yet
Exists(i) == st[i] # None

Reused(c) == IF c \in {"A", "AR"} THEN "AR" ELSE "BR"
Apply(o) ==
  CASE o.k = "new"      -> [st EXCEPT ![o.i] = NewState(o.c)]
    [] o.k = "reconf"   -> IF o.c = "invalid" THEN st ELSE [st EXCEPT ![o.i] = CommitState(st[o.i], o.c)]
    [] o.k = "setdebug" -> [st EXCEPT ![o.i] = SetDebugState(st[o.i], o.b)]
    [] o.k = "reuse"    -> [st EXCEPT ![o.i] = CommitState(st[o.i], Reused(arg[o.i]))]
    [] OTHER            -> st                          \* caller-side mutation and mutating handlers: stuttering
ApplyArg(o) ==
  CASE o.k = "new"                        -> [arg EXCEPT ![o.i] = o.c]
    [] o.k = "reconf" /\ o.c # "nil"      -> [arg EXCEPT ![o.i] = o.c]
    [] o.k = "mutarg"                     -> [arg EXCEPT ![o.i] = "junk"]       \* overwritten with garbage
    [] o.k = "reuse"                      -> [arg EXCEPT ![o.i] = Reused(arg[o.i])]
    [] OTHER                              -> arg
Enabled(o) == \/ o.k = "new"
              \/ o.k = "reuse" /\ Exists(o.i) /\ arg[o.i] \in {"A", "B", "AR", "BR"}
              \/ o.k \notin {"new", "reuse"} /\ Exists(o.i)

Init == st = [i \in MW |-> None] /\ hist = <<>> /\ arg = [i \in MW |-> "none"]
Next == /\ Len(hist) < MaxLen
        /\ \E o \in Ops : Enabled(o) /\ st' = Apply(o) /\ arg' = ApplyArg(o) /\ hist' = Append(hist, o)
Spec == Init /\ [][Next]_vars

PassthroughHasDebugOff == \A i \in MW : st[i].icfg = Nil => ~st[i].debug
Dump == IF DumpCases /\ Len(hist) = MaxLen THEN CSVWrite("%1$s", <<ToJson(hist)>>, IOEnv.OUT_FILE) ELSE TRUE
=============================================================================
