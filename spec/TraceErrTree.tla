---------------------------- MODULE TraceErrTree ----------------------------
(***************************************************************************)
(* Trace specification for C19 (first sentence): every join tree generated *)
(* by ErrTreeMC.tla was rebuilt with the real errors.Join and iterated     *)
(* with the real cfgerrors.All, the consumer breaking after k items - once *)
(* by calling the iterator with a counting consumer, once with a range     *)
(* loop, and once by ranging over ONE iterator value twice (broken off     *)
(* after k items, then to the end).  TLC requires: yielded = the first k   *)
(* leaves in order, nothing yielded after the break, the second loop over  *)
(* the same value yields exactly the leaves again, no panic.               *)
(***************************************************************************)
EXTENDS ErrTree, Json, IOUtils

Trace == ndJsonDeserialize(IOEnv.TRACE_FILE)
VARIABLES l, bad, stats
vars == <<l, bad, stats>>
\* The monitor is a deterministic chain, one state per consumed event: fingerprinting the position alone (cfg: VIEW TraceView)
\* keeps validation linear however large `bad`, the references or the block grow.
TraceView == l

Iter == /\ l <= Len(Trace) /\ Trace[l].ev = "Iter" /\ l' = l + 1
        /\ LET e == Trace[l]  want == Take(Leaves(e.tree), e.k) IN
           /\ bad' = (IF e.out # want \/ e.rout # want THEN {<<l, "yielded sequence is not the first k leaves">>} ELSE {})
                     \cup (IF e.late # 0 THEN {<<l, "the iterator kept yielding after the consumer broke out">>} ELSE {})
                     \cup (IF e.panicked \/ e.rpanicked \/ e.apanicked THEN {<<l, "panic">>} ELSE {})
                     \cup (IF e.again # Leaves(e.tree)
                           THEN {<<l, "ranging again over the same iterator value after a broken-off loop does not yield exactly the leaves">>} ELSE {})
                     \cup bad
           /\ stats' = [stats EXCEPT !.early = @ + (IF e.k < Len(Leaves(e.tree)) THEN 1 ELSE 0), !.runs = @ + 1]
Init == l = 1 /\ bad = {} /\ stats = [early |-> 0, runs |-> 0]
Spec == Init /\ [][Iter]_vars
Final == (l = Len(Trace) + 1) =>
           JsonSerialize(IOEnv.RESULT_FILE, [bad |-> bad, consumed |-> l - 1, total |-> Len(Trace), stats |-> stats])
=============================================================================
