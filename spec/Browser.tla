------------------------------- MODULE Browser -------------------------------
(***************************************************************************)
(* A Fetch-compliant browser, as far as CORS is concerned                  *)
(* (https://fetch.spec.whatwg.org/#cors-preflight-fetch-0, #cors-check,    *)
(* and the Private-Network-Access draft), and the MEANING of a semantic    *)
(* configuration (Permits) - the C02 sentence.  The browser algorithms     *)
(* only look at a response's status and headers, so they can be evaluated  *)
(* on the model's Respond (CorsMC.tla) and on responses recorded from the  *)
(* real middleware (TraceBrowser.tla) alike.                               *)
(*                                                                         *)
(* Intent == [origin : OriginToken, method : STRING (already normalised    *)
(*            by the browser), hdrs : SUBSET STRING (byte-lower-case       *)
(*            CORS-unsafe request-header names), include : BOOLEAN         *)
(*            (credentials mode "include"), pna : BOOLEAN]                 *)
(***************************************************************************)
EXTENDS Cors

Range(f) == {f[x] : x \in DOMAIN f}

NeedsPreflight(i) == i.method \notin Safelisted \/ i.hdrs # {} \/ i.pna

Elem(n, l, r) == [name |-> n, l |-> l, r |-> r]
NoAcrh == [present |-> FALSE, lines |-> <<>>]

\* The ACRH field as the browser emits it (one line, sorted, unique, byte-lower-case, no whitespace)
\* and as altered by an intermediary within what the documentation tolerates.
Perturbations == {"none", "ows", "empties", "split", "mix"}
AcrhLines(names, pert) ==
  LET plain == [j \in 1..Len(names) |-> Elem(names[j], 0, 0)]
      padded == [j \in 1..Len(names) |-> Elem(names[j], 1, 1)]
      e0 == Elem("", 0, 0)
  IN CASE pert = "none"    -> <<plain>>
       [] pert = "ows"     -> <<padded>>
       [] pert = "empties" -> << <<e0>> \o plain \o <<e0, Elem("", 1, 0)>> >>
       [] pert = "split"   -> [j \in 1..Len(names) |-> <<plain[j]>>]
       [] pert = "mix"     -> << <<e0>> >> \o [j \in 1..Len(names) |-> <<Elem(names[j], (j % 2), ((j + 1) % 2)), e0>>]

PreflightReq(i, pert) ==
  [method |-> "OPTIONS", origin |-> <<i.origin>>, acrm |-> <<i.method>>,
   acrpn  |-> IF i.pna THEN <<"true">> ELSE <<>>,
   acrh   |-> IF i.hdrs = {} THEN NoAcrh ELSE [present |-> TRUE, lines |-> AcrhLines(Sorted(i.hdrs), pert)]]
ActualReq(i) ==
  [method |-> i.method, origin |-> <<i.origin>>, acrm |-> <<>>, acrpn |-> <<>>, acrh |-> NoAcrh]

\* https://fetch.spec.whatwg.org/#cors-check  ("get" of a header with several field lines joins
\* them with ", ", which can equal neither "*" nor a serialized origin)
CorsCheck(resp, i) ==
  LET v == Get(resp.hdrs, "ACAO") IN
  /\ Len(v) = 1
  /\ \/ ~i.include /\ v[1] = "*"
     \/ /\ v[1] = i.origin.txt
        /\ (~i.include \/ Get(resp.hdrs, "ACAC") = <<"true">>)

TokenSet(resp, k) == UNION { Range(line) : line \in Range(Get(resp.hdrs, k)) }

\* https://fetch.spec.whatwg.org/#cors-preflight-fetch-0 step 7
PreflightOK(resp, i) ==
  /\ CorsCheck(resp, i)
  /\ resp.status \in 200..299
  /\ LET methods == TokenSet(resp, "ACAM")
         names   == TokenSet(resp, "ACAH")
     IN /\ \/ i.method \in methods
           \/ i.method \in Safelisted
           \/ ~i.include /\ "*" \in methods
        /\ (AUTH \in i.hdrs => AUTH \in names)            \* CORS non-wildcard request-header name
        /\ \A n \in i.hdrs : n \in names \/ (~i.include /\ "*" \in names)
        /\ (i.pna => Get(resp.hdrs, "ACAPN") = <<"true">>)

\* the browser's end-to-end verdict, given the two responses it received
VerdictOn(i, preResp, actResp) ==
  /\ (NeedsPreflight(i) => PreflightOK(preResp, i))
  /\ CorsCheck(actResp, i)

(***************************************************************************)
(* What the configuration MEANS (the C02 sentence).                        *)
(***************************************************************************)
OriginAllowed(s, o) == o.wf /\ (s.any \/ o.member)
Permits(s, i) ==
  /\ ~s.pass
  /\ OriginAllowed(s, i.origin)
  /\ (i.include => s.cred)
  /\ (i.method \in Safelisted \/ s.mAny \/ i.method \in s.meths)
  /\ \A n \in i.hdrs : IF n = AUTH THEN s.hAuth \/ (s.hStar /\ s.cred)
                                   ELSE s.hStar \/ n \in s.hNames
  /\ (i.pna => s.pna = "cors")
  /\ s.pna # "nocors"
=============================================================================
