---------------------------- MODULE TraceNormal ----------------------------
(***************************************************************************)
(* Trace specification: Config() values recorded from real middlewares     *)
(* (built from a Sem spelled in a random equivalent way: gen 0; after       *)
(* m.Reconfigure(m.Config()): gen 1, 2) must be the normal form of that     *)
(* Sem (NormalForm.tla); gen 1 and gen 2 must be equal (C06's stability).   *)
(* Total monitor.                                                           *)
(***************************************************************************)
EXTENDS NormalForm, TLC, Json, IOUtils

Trace == ndJsonDeserialize(IOEnv.TRACE_FILE)
VARIABLES l, bad, stats
vars == <<l, bad, stats>>
\* The monitor is a deterministic chain, one state per consumed event: fingerprinting the position alone (cfg: VIEW TraceView)
\* keeps validation linear however large `bad`, the references or the block grow.
TraceView == l

Msg(g, f) == "gen " \o ToString(g) \o ": Config()." \o f \o " is not the normal form of the configuration's meaning"
NF == /\ l <= Len(Trace) /\ Trace[l].ev = "NF" /\ l' = l + 1
      /\ LET e == Trace[l] IN
         /\ bad' = UNION { { <<l, Msg(g, f)>> : f \in Mismatches(e.sem, e.outs[g + 1]) } : g \in 0..2 }
                   \cup (IF e.outs[2] # e.outs[3] THEN {<<l, "Config() still changes after one round trip">>} ELSE {})
                   \cup bad
         /\ stats' = [stats EXCEPT !.cases = @ + 1,
                                   !.changed = @ + (IF e.outs[1] # e.outs[2] THEN 1 ELSE 0),
                                   !.d1 = @ + (IF HasD1(e.outs[1]) THEN 1 ELSE 0),
                                   !.listy = @ + (IF Len(e.outs[1].origins) > 1 /\ Len(e.outs[1].reqh) > 1 THEN 1 ELSE 0)]
Skip == l <= Len(Trace) /\ Trace[l].ev # "NF" /\ l' = l + 1 /\ UNCHANGED <<bad, stats>>
Init == l = 1 /\ bad = {} /\ stats = [cases |-> 0, changed |-> 0, d1 |-> 0, listy |-> 0]
Spec == Init /\ [][NF \/ Skip]_vars
Final == (l = Len(Trace) + 1) =>
           JsonSerialize(IOEnv.RESULT_FILE, [bad |-> bad, consumed |-> l - 1, total |-> Len(Trace), stats |-> stats])
=============================================================================
