------------------------------- MODULE Config -------------------------------
(***************************************************************************)
(* Validation of a cors.Config at the level of LABELLED ATOMS.             *)
(*                                                                         *)
(* A configuration is                                                      *)
(*   [ origins, methods, reqh, resph : Seq([a : atom id, v : spelling]),   *)
(*     cred, pna, nocors, tolInsecure, tolPSL : BOOLEAN,                   *)
(*     maxAge, status : Int ]                                              *)
(* and the atom table (spec/atoms.json, shared with the Go concretiser)    *)
(* gives, per atom id, the attributes the documented rules talk about:     *)
(* field, class (star | valid | safelisted | auth | malformed | bad),      *)
(* insecure, psl, wild, and the admissible Reason values of a defect.      *)
(*                                                                         *)
(*   Violations(c)            the SET of errors the documentation calls    *)
(*                            for: [t : type, v : offending value as       *)
(*                            supplied, rs : admissible reasons]           *)
(*   NoProhibitionViolated(c) the prohibitions of the Config documentation,*)
(*                            written rule by rule, independently (C04)    *)
(***************************************************************************)
EXTENDS Integers, Sequences, FiniteSets, TLC, Json

AtomTable == JsonDeserialize("atoms.json").atoms
Range(f) == {f[x] : x \in DOMAIN f}
AtomById == [id \in {AtomTable[i].id : i \in DOMAIN AtomTable} |->
               CHOOSE a \in Range(AtomTable) : a.id = id]
At(e) == AtomById[e.a]

MaxAgeOK(n) == n \in (-1)..86400
StatusOK(n) == n = 0 \/ n \in 200..299
PnaAny(c) == c.pna \/ c.nocors

E(t, v, rs) == [t |-> t, v |-> v, rs |-> rs]

OriginViolations(c) ==
  (IF c.origins = <<>> THEN {E("UnacceptableOriginPatternError", "", {"missing"})} ELSE {})
  \cup UNION { LET a == At(e) IN
      CASE a.cls = "star" ->
             (IF c.cred THEN {E("IncompatibleOriginPatternError", "*", {"credentialed"})} ELSE {})
             \cup (IF PnaAny(c) THEN {E("IncompatibleOriginPatternError", "*", {"pna"})} ELSE {})
        [] a.cls = "malformed" -> {E("UnacceptableOriginPatternError", e.v, Range(a.reasons))}
        [] OTHER ->
             (IF a.insecure /\ ~c.tolInsecure /\ c.cred THEN {E("IncompatibleOriginPatternError", e.v, {"credentialed"})} ELSE {})
             \cup (IF a.insecure /\ ~c.tolInsecure /\ PnaAny(c) THEN {E("IncompatibleOriginPatternError", e.v, {"pna"})} ELSE {})
             \cup (IF a.psl /\ ~c.tolPSL THEN {E("IncompatibleOriginPatternError", e.v, {"psl"})} ELSE {})
    : e \in Range(c.origins) }

ListViolations(list, t) ==
  UNION { LET a == At(e) IN IF a.cls = "bad" THEN {E(t, e.v, Range(a.reasons))} ELSE {} : e \in Range(list) }

Violations(c) ==
  OriginViolations(c)
  \cup ListViolations(c.methods, "UnacceptableMethodError")
  \cup ListViolations(c.reqh, "UnacceptableHeaderNameError/request")
  \cup ListViolations(c.resph, "UnacceptableHeaderNameError/response")
  \cup (IF c.cred /\ \E e \in Range(c.resph) : At(e).cls = "star"
          THEN {E("IncompatibleWildcardResponseHeaderNameError", "", {""})} ELSE {})
  \cup (IF ~MaxAgeOK(c.maxAge) THEN {E("MaxAgeOutOfBoundsError", ToString(c.maxAge), {"5/86400/-1"})} ELSE {})
  \cup (IF ~StatusOK(c.status) THEN {E("PreflightSuccessStatusOutOfBoundsError", ToString(c.status), {"204/200/299"})} ELSE {})
  \cup (IF c.pna /\ c.nocors THEN {E("IncompatiblePrivateNetworkAccessModesError", "", {""})} ELSE {})

Acceptable(c) == Violations(c) = {}

(***************************************************************************)
(* C04: the documented prohibitions, one by one.                           *)
(***************************************************************************)
Cls(list, k) == { e \in Range(list) : At(e).cls = k }
NoProhibitionViolated(c) ==
  /\ c.origins # <<>>                                                       \* at least one origin pattern
  /\ Cls(c.origins, "malformed") = {}                                       \* no null / file / Unicode / non-canonical / malformed pattern
  /\ (Cls(c.origins, "star") # {} => ~c.cred /\ ~c.pna /\ ~c.nocors)        \* `*` never with credentials or either PNA mode
  /\ \A e \in Cls(c.origins, "valid") :
        /\ (At(e).insecure /\ (c.cred \/ c.pna \/ c.nocors)) => c.tolInsecure
        /\ At(e).psl => c.tolPSL
  /\ Cls(c.methods, "bad") = {}                                             \* no invalid or forbidden method
  /\ Cls(c.reqh, "bad") = {} /\ Cls(c.resph, "bad") = {}                    \* no invalid / forbidden / prohibited header name
  /\ (Cls(c.resph, "star") # {} => ~c.cred)                                 \* `*` response-header name never with credentials
  /\ c.maxAge >= -1 /\ c.maxAge <= 86400
  /\ (c.status = 0 \/ (c.status >= 200 /\ c.status <= 299))
  /\ ~(c.pna /\ c.nocors)                                                   \* at most one PNA mode
=============================================================================
