---------------------------- MODULE LifecycleMC ----------------------------
(***************************************************************************)
(* All call histories of bounded length over                               *)
(*   {SetDebug(TRUE), SetDebug(FALSE), Reconfigure(nil), Reconfigure(A),   *)
(*    Reconfigure(B), Reconfigure(invalid)}                                *)
(* from NewMiddleware(A) and from the zero value (C09's quantifier), with  *)
(* the documented state machine as the transition relation.  Checks the    *)
(* model-level invariant and, as generator for binding G, writes every     *)
(* maximal history together with the state expected after every step.      *)
(***************************************************************************)
EXTENDS Naturals, Sequences, TLC, Json, CSV, IOUtils, MwState

CONSTANTS MaxLen, DumpCases

Ops == { [k |-> "setdebug", b |-> TRUE], [k |-> "setdebug", b |-> FALSE],
         [k |-> "reconf", c |-> "nil"], [k |-> "reconf", c |-> "A"], [k |-> "reconf", c |-> "B"],
         [k |-> "reconf", c |-> "invalid"] }

VARIABLES st, hist
vars == <<st, hist>>

Apply(s, o) == IF o.k = "setdebug" THEN SetDebugState(s, o.b)
               ELSE IF o.c = "invalid" THEN s
               ELSE CommitState(s, o.c)

Init == \/ st = NewState("A") /\ hist = << [op |-> [k |-> "new", c |-> "A"], after |-> NewState("A")] >>
        \/ st = ZeroState /\ hist = << [op |-> [k |-> "zero"], after |-> ZeroState] >>
Next == /\ Len(hist) <= MaxLen
        /\ \E o \in Ops : st' = Apply(st, o) /\ hist' = Append(hist, [op |-> o, after |-> st'])
Spec == Init /\ [][Next]_vars

PassthroughHasDebugOff == st.icfg = Nil => ~st.debug
DebugOffAfterCreation == Len(hist) = 1 => ~st.debug
Dump == IF DumpCases /\ Len(hist) = MaxLen + 1
          THEN CSVWrite("%1$s", <<ToJson(hist)>>, IOEnv.OUT_FILE) ELSE TRUE
=============================================================================
