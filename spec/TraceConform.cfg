SPECIFICATION Spec
CONSTANTS
  CBug = "none"
  NameOrder <- TraceNameOrder
  AcrhOK <- AcrhOKBytes
  AcrhEcho <- AcrhEchoTokens
INVARIANT Final
CHECK_DEADLOCK FALSE
VIEW TraceView
