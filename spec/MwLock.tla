------------------------------- MODULE MwLock -------------------------------
(***************************************************************************)
(* Lock-level model of cors.Middleware: one step below Middleware.tla.     *)
(*                                                                         *)
(* Middleware.tla makes every critical section ONE action.  Here the       *)
(* sync.RWMutex is explicit - rd (threads holding the read lock), wr (the  *)
(* thread holding the write lock), wq (writers that announced themselves   *)
(* in Lock() and wait for the readers to drain; as in Go, a pending writer *)
(* keeps NEW readers out) - and every method is the sequence of steps the  *)
(* code takes:                                                             *)
(*   request     : RLock; read icfg, debug; RUnlock; w.Header();           *)
(*                 WriteHeader / h.ServeHTTP (the wrapped handler may call *)
(*                 methods of the SAME middleware: threads of Nested run   *)
(*                 only while Host is inside its handler, and Host does    *)
(*                 not return before they have)                            *)
(*   Reconfigure : validate (no lock); Lock; write icfg, debug; Unlock     *)
(*   SetDebug    : Lock; write debug; Unlock                               *)
(*   Config      : RLock; read icfg; RUnlock; render (no lock)             *)
(* What is checked (MwLockMC.cfg):                                         *)
(*   Refinement    MW!Spec - under the mapping AbsPc this model implements *)
(*                 Middleware.tla (so Atomic, ConfigAtomic, DebugMachine,  *)
(*                 RejectedIsNoOp, PassthroughHasDebugOff carry over)      *)
(*   MutualExclusion, LockFreeOutside (no lock is held across validation,  *)
(*                 rendering, w.Header(), the wrapped handler), NoRecursion*)
(*   deadlock freedom (CHECK_DEADLOCK) and Termination: under weak         *)
(*                 fairness every started call returns - also when the     *)
(*                 wrapped handler reconfigures its own middleware         *)
(* LBug selects lock-level negative twins:                                 *)
(*   holdAcross    the read lock is released when the request is over      *)
(*                 (`defer m.mu.RUnlock()`): deadlock with a nested writer *)
(*   checkThenAct  SetDebug reads icfg in a read section and writes debug  *)
(*                 in a later write section: not a refinement              *)
(*                 (and, with a third writer pending, with a nested Config *)
(*                 call: the recursive read lock of Go's documentation)    *)
(* The gate-level events of the schedule explorer (C07) are checked        *)
(* against this model by TraceLock.tla.                                    *)
(***************************************************************************)
EXTENDS Naturals, FiniteSets, Sequences, TLC, MwState

CONSTANTS Cfgs, Invalid, Reqs, Writers,
          Host,        \* the request whose wrapped handler calls back into the middleware
          Nested,      \* the writer threads that are such calls (a subset of Writers)
          LBug

VARIABLES icfg, debug, pc, op, loc, window, wseq,     \* as in Middleware.tla
          rd, wr, wq                                   \* the RWMutex
avars == <<icfg, debug, op, loc, window, wseq>>
vars == <<icfg, debug, pc, op, loc, window, wseq, rd, wr, wq>>

Threads == Reqs \cup Writers
None == "none"
Cur == <<icfg, debug>>
NoLoc == [c |-> Nil, d |-> FALSE]
WriterOps == [kind : {"reconf"}, c : Cfgs \cup {Nil, Invalid}]
             \cup [kind : {"setdebug"}, b : BOOLEAN]
             \cup [kind : {"config"}]

Init ==
  /\ icfg \in Cfgs \cup {Nil}
  /\ debug \in BOOLEAN /\ (icfg = Nil => ~debug)
  /\ pc = [t \in Threads |-> "idle"]
  /\ op = [t \in Threads |-> [kind |-> "none"]]
  /\ loc = [t \in Threads |-> NoLoc]
  /\ window = [t \in Threads |-> {}]
  /\ wseq = 0
  /\ rd = {} /\ wr = None /\ wq = {}

\* a writer that has written and only has to release the lock is, for the abstract model, done: its window stops growing
AbsRunning(t) == pc[t] \notin {"idle", "done", "wunlock"}
Publish(c, d) ==
  /\ icfg' = c /\ debug' = d /\ wseq' = wseq + 1
  /\ window' = [t \in Threads |-> IF AbsRunning(t) THEN window[t] \cup {<<c, d>>} ELSE window[t]]

Goto(t, p) == pc' = [pc EXCEPT ![t] = p]
Running(t) == pc[t] \notin {"idle", "done"}

\* ---------------------------------------------------------------- the mutex
RLock(t, next) ==                       \* blocks while a writer holds the lock or has announced itself
  /\ wr = None /\ wq = {}
  /\ rd' = rd \cup {t} /\ Goto(t, next)
  /\ UNCHANGED <<icfg, debug, op, loc, window, wseq, wr, wq>>
RUnlock(t, next) ==
  /\ rd' = rd \ {t} /\ Goto(t, next)
  /\ UNCHANGED <<icfg, debug, op, loc, window, wseq, wr, wq>>
LockAnnounce(t, next) ==                \* Lock(), first half: from now on no new reader gets in
  /\ wq' = wq \cup {t} /\ Goto(t, next)
  /\ UNCHANGED <<icfg, debug, op, loc, window, wseq, rd, wr>>
LockAcquire(t, next) ==                 \* Lock(), second half: the readers have drained
  /\ t \in wq /\ wr = None /\ rd = {}
  /\ wr' = t /\ wq' = wq \ {t} /\ Goto(t, next)
  /\ UNCHANGED <<icfg, debug, op, loc, window, wseq, rd>>
Unlock(t, next) ==
  /\ wr = t
  /\ wr' = None /\ Goto(t, next)
  /\ UNCHANGED <<icfg, debug, op, loc, window, wseq, rd, wq>>

\* ---------------------------------------------------------------- starting a call
Start(t, o, next) ==
  /\ pc[t] = "idle"
  /\ op' = [op EXCEPT ![t] = o]
  /\ Goto(t, next)
  /\ window' = [window EXCEPT ![t] = {Cur}]
  /\ UNCHANGED <<icfg, debug, loc, wseq, rd, wr, wq>>
ReqStart(t) == t \in Reqs /\ Start(t, [kind |-> "request"], "rlock")
WStart(t) ==
  /\ t \in Writers
  /\ t \in Nested => pc[Host] = "emit"                         \* a call made by Host's wrapped handler
  /\ \E o \in WriterOps :
       Start(t, o, CASE o.kind = "reconf" -> "validate"
                     [] o.kind = "setdebug" -> (IF LBug = "checkThenAct" THEN "sd_rlock" ELSE "wlock")
                     [] OTHER -> "rlock")

\* ---------------------------------------------------------------- read sections (request, Config)
ReadLock(t) == pc[t] = "rlock" /\ RLock(t, "rheld")
ReadState(t) ==                                             \* icfg, debug := m.icfg, m.debug
  /\ pc[t] = "rheld"
  /\ loc' = [loc EXCEPT ![t] = [c |-> icfg, d |-> debug]]
  /\ IF LBug = "holdAcross" /\ t \in Reqs
       THEN Goto(t, "header")                                \* twin: the deferred RUnlock runs when the request is over
       ELSE Goto(t, "runlock")
  /\ UNCHANGED <<icfg, debug, op, window, wseq, rd, wr, wq>>
ReadUnlock(t) == pc[t] = "runlock" /\ RUnlock(t, IF t \in Reqs THEN "header" ELSE "render")
ReqHeader(t) ==                                             \* w.Header()
  /\ t \in Reqs /\ pc[t] = "header" /\ Goto(t, "emit")
  /\ UNCHANGED <<icfg, debug, op, loc, window, wseq, rd, wr, wq>>
NestedQuiet(t) == t = Host => \A n \in Nested : ~Running(n)
ReqEmit(t) ==                                               \* WriteHeader / the wrapped handler returns
  /\ t \in Reqs /\ pc[t] = "emit" /\ NestedQuiet(t)
  /\ IF LBug = "holdAcross" THEN RUnlock(t, "done")
     ELSE Goto(t, "done") /\ UNCHANGED <<icfg, debug, op, loc, window, wseq, rd, wr, wq>>
ConfigRender(t) ==
  /\ pc[t] = "render" /\ Goto(t, "done")
  /\ UNCHANGED <<icfg, debug, op, loc, window, wseq, rd, wr, wq>>

\* ---------------------------------------------------------------- write sections (Reconfigure, SetDebug)
ReconfValidate(t) ==
  /\ pc[t] = "validate" /\ Goto(t, IF op[t].c = Invalid THEN "done" ELSE "wlock")
  /\ UNCHANGED <<icfg, debug, op, loc, window, wseq, rd, wr, wq>>
WriteAnnounce(t) == pc[t] = "wlock" /\ LockAnnounce(t, "wwait")
WriteAcquire(t) == pc[t] = "wwait" /\ LockAcquire(t, "wheld")
WriteState(t) ==
  /\ pc[t] = "wheld"
  /\ LET s == [icfg |-> icfg, debug |-> debug] IN
       IF op[t].kind = "reconf"
         THEN Publish(op[t].c, CommitState(s, op[t].c).debug)
         ELSE IF LBug = "checkThenAct"
           THEN Publish(icfg, op[t].b /\ loc[t].c # Nil)     \* twin: decides on what it read earlier
           ELSE Publish(icfg, SetDebugState(s, op[t].b).debug)
  /\ Goto(t, "wunlock")
  /\ UNCHANGED <<op, loc, rd, wr, wq>>
WriteUnlock(t) == pc[t] = "wunlock" /\ Unlock(t, "done")
\* twin checkThenAct: SetDebug's preliminary read section
SdReadLock(t) == pc[t] = "sd_rlock" /\ RLock(t, "sd_rheld")
SdRead(t) ==
  /\ pc[t] = "sd_rheld"
  /\ loc' = [loc EXCEPT ![t] = [c |-> icfg, d |-> debug]]
  /\ Goto(t, "sd_runlock")
  /\ UNCHANGED <<icfg, debug, op, window, wseq, rd, wr, wq>>
SdReadUnlock(t) == pc[t] = "sd_runlock" /\ RUnlock(t, "wlock")

Step(t) ==
  \/ ReadLock(t) \/ ReadState(t) \/ ReadUnlock(t) \/ ReqHeader(t) \/ ReqEmit(t) \/ ConfigRender(t)
  \/ ReconfValidate(t) \/ WriteAnnounce(t) \/ WriteAcquire(t) \/ WriteState(t) \/ WriteUnlock(t)
  \/ SdReadLock(t) \/ SdRead(t) \/ SdReadUnlock(t)
Quiescent == (\A t \in Threads : ~Running(t)) /\ UNCHANGED vars      \* every call has returned: not a deadlock
Next == (\E t \in Threads : ReqStart(t) \/ WStart(t) \/ Step(t)) \/ Quiescent
Spec == Init /\ [][Next]_vars
FairSpec == Spec /\ \A t \in Threads : WF_vars(Step(t))


(***************************************************************************)
(* Properties.                                                             *)
(***************************************************************************)
TypeOK == /\ rd \subseteq Threads /\ wr \in Threads \cup {None} /\ wq \subseteq Writers
          /\ icfg \in Cfgs \cup {Nil} /\ debug \in BOOLEAN
MutualExclusion == /\ wr # None => rd = {}
                   /\ wr \notin wq
Holds(t) == t \in rd \/ wr = t
\* no lock is held across anything that is not a read or a write of the two fields
LockFreeOutside == \A t \in Threads : pc[t] \in {"idle", "validate", "header", "emit", "render", "done", "wlock", "rlock", "sd_rlock"} => ~Holds(t)
HoldsWhereItShould ==
  \A t \in Threads :
    /\ pc[t] \in {"rheld", "runlock", "sd_rheld", "sd_runlock"} => t \in rd
    /\ pc[t] \in {"wheld", "wunlock"} => wr = t
PassthroughHasDebugOff == icfg = Nil => ~debug
\* every call that was started returns
Termination == \A t \in Threads : Running(t) ~> (pc[t] = "done")

\* ---------------------------------------------------------------- refinement of Middleware.tla
AbsPcOf(t) ==
  LET p == pc[t]  k == op[t].kind IN
  CASE p \in {"idle", "done", "validate", "header", "emit", "render"} -> p
    [] p \in {"rlock", "rheld"} -> IF k = "request" THEN "snap" ELSE "csnap"
    [] p = "runlock" -> IF k = "request" THEN "header" ELSE "render"
    [] p \in {"wlock", "wwait", "wheld"} -> IF k = "reconf" THEN "commit" ELSE "setdebug"
    [] p = "wunlock" -> "done"
    [] p \in {"sd_rlock", "sd_rheld", "sd_runlock"} -> "setdebug"
AbsPc == [t \in Threads |-> AbsPcOf(t)]
\* the abstract model records what a request / Config() read; a SetDebug twin that reads is not part of it
AbsLoc == [t \in Threads |-> IF op[t].kind \in {"request", "config"} THEN loc[t] ELSE NoLoc]
MW == INSTANCE Middleware WITH pc <- AbsPc, loc <- AbsLoc
Refinement == MW!Spec
AbsAtomic == MW!Atomic
AbsConfigAtomic == MW!ConfigAtomic
=============================================================================
