SPECIFICATION Spec
CONSTANT DumpCases = TRUE
INVARIANTS GoodIsValid DefectIsInvalid
CONSTRAINT Dump
CHECK_DEADLOCK FALSE
