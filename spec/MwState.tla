------------------------------ MODULE MwState ------------------------------
(***************************************************************************)
(* Sequential meaning of the Middleware API as transitions of the abstract *)
(* state [icfg, debug]: shared by the concurrent model (Middleware.tla),   *)
(* the history generator (LifecycleMC.tla) and the trace specification     *)
(* (TraceLifecycle.tla) that steps it along executions of the real code.   *)
(***************************************************************************)
CONSTANTS Nil,         \* the passthrough configuration
          MBug         \* negative twins; "none" = as documented

NewState(c)          == [icfg |-> c, debug |-> FALSE]                           \* NewMiddleware(valid c)
ZeroState            == [icfg |-> Nil, debug |-> FALSE]                         \* the zero value
CommitState(s, c)    == [icfg |-> c, debug |-> (c # Nil) /\ s.debug]            \* successful Reconfigure (c may be Nil)
\* SetDebug as DOCUMENTED: a no-op on a passthrough middleware. The unrepaired code stored the flag
\* (finding F2); that behaviour is the twin MBug = "f2".
SetDebugState(s, b)  == [icfg |-> s.icfg,
                         debug |-> IF MBug = "f2" THEN b ELSE (b /\ s.icfg # Nil)]
=============================================================================
