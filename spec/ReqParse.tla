------------------------------ MODULE ReqParse ------------------------------
(***************************************************************************)
(* Implementation-shaped, byte-level model of the REQUEST-side origin      *)
(* scanner internal/origins/origins.go: Parse, parseScheme, fastParseHost, *)
(* parsePort - deliberately lenient in the code ("just enough validation   *)
(* for Tree.Contains to know what to do").  One operator per Go function,  *)
(* explicit index arithmetic, and an `inb` flag that records whether every *)
(* slice expression stayed in bounds (C17).                                *)
(* Result of Parse: [ok, scheme, host, ip, port, inb] where host is the    *)
(* raw host VALUE the tree is searched with (brackets already stripped).   *)
(***************************************************************************)
EXTENDS Integers, Sequences, FiniteSets, TLC

CONSTANT PBug

MaxSchemeLen == 64
MaxHostLen == 253
MaxPortLen == 5
MaxOriginLen == MaxSchemeLen + 3 + (MaxHostLen + 1 + 1 + MaxPortLen)     \* 327, as repaired (finding F3)

LOCAL COLON == 58
LOCAL SLASH == 47
LOCAL DOTB == 46
LOCAL LBR == 91
LOCAL RBR == 93
IsLowerAlpha(c) == c \in 97..122
IsDigitB(c) == c \in 48..57
IsLaterSchemeByte(c) == IsLowerAlpha(c) \/ IsDigitB(c) \/ c \in {43, 45, 46, 95}     \* + - . _
IsLabelByte(c) == IsLowerAlpha(c) \/ IsDigitB(c) \/ c \in {45, 95}                     \* - _

Min(a, b) == IF a < b THEN a ELSE b
Sub(s, i, j) == SubSeq(s, i, j)        \* 1-based inclusive

\* parseScheme: returns [ok, n] where n = number of bytes consumed
RECURSIVE SchemeEnd(_, _, _)
SchemeEnd(s, i, end) == IF i <= end /\ IsLaterSchemeByte(s[i]) THEN SchemeEnd(s, i + 1, end) ELSE i - 1
ParseScheme(s) ==
  IF Len(s) = 0 \/ ~IsLowerAlpha(s[1]) THEN [ok |-> FALSE, n |-> 0]
  ELSE [ok |-> TRUE, n |-> SchemeEnd(s, 2, Min(MaxSchemeLen, Len(s)))]

\* fastParseHost on `s`: [ok, host, ip, n] (n = bytes consumed, brackets included)
RECURSIVE HostScan(_, _, _, _)
HostScan(s, i, prevDot, ip) ==        \* returns <<ok, end index (last byte of the host), ip>>
  IF i > Len(s) THEN <<TRUE, i - 1, ip>>
  ELSE IF s[i] = DOTB THEN (IF prevDot THEN <<FALSE, 0, ip>> ELSE HostScan(s, i + 1, TRUE, ip))
  ELSE IF IsDigitB(s[i]) THEN HostScan(s, i + 1, FALSE, IF prevDot \/ i = 1 THEN TRUE ELSE ip)
  ELSE IF IsLabelByte(s[i]) THEN HostScan(s, i + 1, FALSE, IF prevDot THEN FALSE ELSE ip)
  ELSE <<TRUE, i - 1, ip>>
FastParseHost(s) ==
  IF Len(s) >= 4 /\ s[1] = LBR
    THEN LET idx == { i \in 1..Len(s) : s[i] = RBR } IN
         IF idx = {} THEN [ok |-> FALSE, host |-> <<>>, ip |-> FALSE, n |-> 0]
         ELSE LET e == CHOOSE i \in idx : \A j \in idx : i <= j
              IN [ok |-> TRUE, host |-> Sub(s, 2, e - 1), ip |-> TRUE, n |-> e]
  ELSE IF Len(s) = 0 \/ s[1] = DOTB THEN [ok |-> FALSE, host |-> <<>>, ip |-> FALSE, n |-> 0]
  ELSE LET r == HostScan(s, 1, FALSE, FALSE) IN
       IF ~r[1] THEN [ok |-> FALSE, host |-> <<>>, ip |-> FALSE, n |-> 0]
       ELSE [ok |-> TRUE, host |-> Sub(s, 1, r[2]), ip |-> r[3], n |-> r[2]]

\* parsePort on `s`: [ok, port, n, inb]; the Go code hoists a bounds check with `_ = str[i:end]`
RECURSIVE PortScan(_, _, _, _)
PortScan(s, i, end, acc) == IF i <= end /\ IsDigitB(s[i]) THEN PortScan(s, i + 1, end, 10 * acc + (s[i] - 48)) ELSE <<acc, i - 1>>
ParsePort(s) ==
  IF Len(s) = 0 \/ ~(s[1] \in 49..57) THEN [ok |-> FALSE, port |-> 0, n |-> 0, inb |-> TRUE]
  ELSE LET end == Min(Len(s), IF PBug = "port6" THEN 6 ELSE MaxPortLen)
           r   == PortScan(s, 2, end, s[1] - 48)
       IN IF r[1] > 65535 THEN [ok |-> FALSE, port |-> 0, n |-> 0, inb |-> 1 <= end]
          ELSE [ok |-> TRUE, port |-> r[1], n |-> r[2], inb |-> 1 <= end]       \* str[1:end] needs 1 <= end <= len

Fail == [ok |-> FALSE, scheme |-> <<>>, host |-> <<>>, ip |-> FALSE, port |-> 0, inb |-> TRUE]
Parse(b) ==
  IF Len(b) > MaxOriginLen THEN Fail
  ELSE LET sc == ParseScheme(b) IN
  IF ~sc.ok THEN Fail
  ELSE LET r1 == Sub(b, sc.n + 1, Len(b)) IN
  IF Len(r1) < 3 \/ r1[1] # COLON \/ r1[2] # SLASH \/ r1[3] # SLASH THEN Fail
  ELSE LET r2 == Sub(r1, 4, Len(r1))  h == FastParseHost(r2) IN
  IF ~h.ok THEN Fail
  ELSE LET r3 == Sub(r2, h.n + 1, Len(r2)) IN
  IF r3 = <<>> THEN [ok |-> TRUE, scheme |-> Sub(b, 1, sc.n), host |-> h.host, ip |-> h.ip, port |-> 0, inb |-> TRUE]
  ELSE IF r3[1] # COLON THEN Fail
  ELSE LET p == ParsePort(Tail(r3)) IN
  IF ~p.ok \/ (PBug # "portJunk" /\ p.n # Len(r3) - 1) THEN [Fail EXCEPT !.inb = p.inb]
  ELSE [ok |-> TRUE, scheme |-> Sub(b, 1, sc.n), host |-> h.host, ip |-> h.ip, port |-> p.port, inb |-> p.inb]
=============================================================================
