SPECIFICATION Spec
INVARIANT Final
POSTCONDITION Accepted
CHECK_DEADLOCK FALSE
