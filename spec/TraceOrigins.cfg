SPECIFICATION Spec
INVARIANT Final
CHECK_DEADLOCK FALSE
VIEW TraceView
