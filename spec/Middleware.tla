----------------------------- MODULE Middleware -----------------------------
(***************************************************************************)
(* Life cycle and concurrency of cors.Middleware{mu, icfg, debug}.         *)
(*                                                                         *)
(* Shared state: icfg (Nil = passthrough, otherwise the identity of an     *)
(* accepted configuration) and debug, both guarded by one RWMutex `lock`.  *)
(* One action per critical section or external interaction of the code:    *)
(*   Reconfigure : ReconfValidate (outside the lock) -> ReconfReject |     *)
(*                 ReconfCommit (ONE write section: icfg and debug)        *)
(*   SetDebug    : one write section; as DOCUMENTED: a no-op on a          *)
(*                 passthrough middleware (the unrepaired code stored the  *)
(*                 flag - finding F2 - which is the twin MBug = "f2")      *)
(*   Config      : ConfigSnap (one read section) -> ConfigRender           *)
(*   request     : ReqSnap (ONE read section: icfg and debug) ->           *)
(*                 ReqHeader (w.Header()) -> ReqEmit (WriteHeader / hand   *)
(*                 over to the wrapped handler) -> done                    *)
(* The pure state-transition operators (NewState, CommitState,             *)
(* SetDebugState) are shared with TraceLifecycle.tla, which steps them     *)
(* along recorded executions of the real code.                             *)
(*                                                                         *)
(* Atomicity (C07) is stated with a history variable window[t] = the set   *)
(* of (icfg, debug) pairs that were current at some instant since thread t *)
(* started its operation: a finished request must have acted on a member   *)
(* of its window, a finished Config() must render one.                     *)
(* MBug selects negative twins.                                            *)
(***************************************************************************)
EXTENDS Naturals, FiniteSets, Sequences, TLC, MwState

CONSTANTS Cfgs,        \* identities of accepted configurations, e.g. {"A", "B"}
          Invalid,     \* stands for any Config that validation rejects
          Reqs,        \* request threads
          Writers      \* threads performing Reconfigure / SetDebug / Config

(***************************************************************************)
(* The concurrent model.                                                   *)
(***************************************************************************)
VARIABLES icfg, debug, pc, op, loc, window, wseq
vars == <<icfg, debug, pc, op, loc, window, wseq>>

Threads == Reqs \cup Writers
Cur == <<icfg, debug>>

WriterOps == [kind : {"reconf"}, c : Cfgs \cup {Nil, Invalid}]
             \cup [kind : {"setdebug"}, b : BOOLEAN]
             \cup [kind : {"config"}]
NoLoc == [c |-> Nil, d |-> FALSE]

Init ==
  /\ icfg \in Cfgs \cup {Nil}
  /\ debug \in BOOLEAN /\ (icfg = Nil => ~debug)
  /\ pc = [t \in Threads |-> "idle"]
  /\ op = [t \in Threads |-> [kind |-> "none"]]
  /\ loc = [t \in Threads |-> NoLoc]
  /\ window = [t \in Threads |-> {}]
  /\ wseq = 0

\* every state change goes through Publish: all operations in flight see it in their windows
Publish(c, d) ==
  /\ icfg' = c /\ debug' = d /\ wseq' = wseq + 1
  /\ window' = [t \in Threads |-> IF pc[t] \notin {"idle", "done"} THEN window[t] \cup {<<c, d>>} ELSE window[t]]

Start(t, o, next) ==
  /\ pc[t] = "idle"
  /\ op' = [op EXCEPT ![t] = o]
  /\ pc' = [pc EXCEPT ![t] = next]
  /\ window' = [window EXCEPT ![t] = {Cur}]
  /\ UNCHANGED <<icfg, debug, loc, wseq>>

\* ---------------------------------------------------------------- requests
ReqStart(t) == t \in Reqs /\ Start(t, [kind |-> "request"], "snap")
ReqSnap(t) ==                                           \* RLock; icfg, debug := m.icfg, m.debug; RUnlock
  /\ t \in Reqs /\ pc[t] = "snap"
  /\ IF MBug = "splitSnap"
       THEN /\ loc' = [loc EXCEPT ![t].c = icfg]          \* twin: debug is read in a second section
            /\ pc' = [pc EXCEPT ![t] = "snap2"]
       ELSE /\ loc' = [loc EXCEPT ![t] = [c |-> icfg, d |-> debug]]
            /\ pc' = [pc EXCEPT ![t] = "header"]
  /\ UNCHANGED <<icfg, debug, op, window, wseq>>
ReqSnap2(t) ==
  /\ t \in Reqs /\ pc[t] = "snap2"
  /\ loc' = [loc EXCEPT ![t].d = debug]
  /\ pc' = [pc EXCEPT ![t] = "header"]
  /\ UNCHANGED <<icfg, debug, op, window, wseq>>
ReqHeader(t) ==                                         \* w.Header(): an interaction with the outside
  /\ t \in Reqs /\ pc[t] = "header"
  /\ loc' = IF MBug = "lateDebug" THEN [loc EXCEPT ![t].d = debug] ELSE loc   \* twin: debug re-read here
  /\ pc' = [pc EXCEPT ![t] = "emit"]
  /\ UNCHANGED <<icfg, debug, op, window, wseq>>
ReqEmit(t) ==                                           \* WriteHeader / h.ServeHTTP
  /\ t \in Reqs /\ pc[t] = "emit"
  /\ pc' = [pc EXCEPT ![t] = "done"]
  /\ UNCHANGED <<icfg, debug, op, loc, window, wseq>>

\* ---------------------------------------------------------------- writers
WStart(t) == t \in Writers /\ \E o \in WriterOps :
               Start(t, o, CASE o.kind = "reconf" -> "validate" [] o.kind = "setdebug" -> "setdebug" [] OTHER -> "csnap")
ReconfValidate(t) ==                                    \* newInternalConfig, outside the lock
  /\ pc[t] = "validate"
  /\ pc' = [pc EXCEPT ![t] = IF op[t].c = Invalid THEN "done" ELSE "commit"]   \* rejected: nothing is touched
  /\ UNCHANGED <<icfg, debug, op, loc, window, wseq>>
ReconfCommit(t) ==                                      \* Lock; m.icfg = icfg; m.debug = cfg != nil && m.debug; Unlock
  /\ pc[t] = "commit"
  /\ IF MBug = "splitCommit"
       THEN /\ Publish(op[t].c, debug)                   \* twin: debug is updated in a second write section
            /\ pc' = [pc EXCEPT ![t] = "commit2"]
       ELSE /\ Publish(op[t].c, CommitState([icfg |-> icfg, debug |-> debug], op[t].c).debug)
            /\ pc' = [pc EXCEPT ![t] = "done"]
  /\ UNCHANGED <<op, loc>>
ReconfCommit2(t) ==
  /\ pc[t] = "commit2"
  /\ Publish(icfg, (icfg # Nil) /\ debug)
  /\ pc' = [pc EXCEPT ![t] = "done"]
  /\ UNCHANGED <<op, loc>>
SetDebug(t) ==                                          \* Lock; m.debug = b (&& configured); Unlock
  /\ pc[t] = "setdebug"
  /\ Publish(icfg, SetDebugState([icfg |-> icfg, debug |-> debug], op[t].b).debug)
  /\ pc' = [pc EXCEPT ![t] = "done"]
  /\ UNCHANGED <<op, loc>>
ConfigSnap(t) ==                                        \* RLock; icfg := m.icfg; RUnlock
  /\ pc[t] = "csnap"
  /\ loc' = [loc EXCEPT ![t] = [c |-> icfg, d |-> debug]]
  /\ pc' = [pc EXCEPT ![t] = "render"]
  /\ UNCHANGED <<icfg, debug, op, window, wseq>>
ConfigRender(t) ==                                      \* newConfig(icfg), outside the lock
  /\ pc[t] = "render"
  /\ pc' = [pc EXCEPT ![t] = "done"]
  /\ UNCHANGED <<icfg, debug, op, loc, window, wseq>>

Next == \E t \in Threads :
          \/ ReqStart(t) \/ ReqSnap(t) \/ ReqSnap2(t) \/ ReqHeader(t) \/ ReqEmit(t)
          \/ WStart(t) \/ ReconfValidate(t) \/ ReconfCommit(t) \/ ReconfCommit2(t) \/ SetDebug(t)
          \/ ConfigSnap(t) \/ ConfigRender(t)
Spec == Init /\ [][Next]_vars

(***************************************************************************)
(* Properties.                                                             *)
(***************************************************************************)
TypeOK == /\ icfg \in Cfgs \cup {Nil} /\ debug \in BOOLEAN /\ wseq \in Nat
\* C09: the debug mode of a passthrough middleware is invariably off
PassthroughHasDebugOff == icfg = Nil => ~debug
\* C07: a finished request acted on ONE state that was current during the request
Atomic == \A t \in Reqs : pc[t] = "done" => <<loc[t].c, loc[t].d>> \in window[t]
\* C07: a finished Config() rendered the configuration of one such state
ConfigAtomic == \A t \in Writers : (pc[t] = "done" /\ op[t].kind = "config") =>
                   \E s \in window[t] : s[1] = loc[t].c
\* C08: a rejected Reconfigure touches nothing (action property)
RejectedIsNoOp == [][\A t \in Writers : (pc[t] = "validate" /\ op[t].c = Invalid /\ pc'[t] = "done")
                                          => (icfg' = icfg /\ debug' = debug)]_vars
\* C09: the documented debug state machine (action property)
DebugMachine ==
  [][\A t \in Writers :
       /\ (pc[t] = "setdebug" /\ pc'[t] = "done") =>
             (icfg' = icfg /\ debug' = (op[t].b /\ icfg # Nil))
       /\ (pc[t] = "commit" /\ pc'[t] = "done") =>
             (icfg' = op[t].c /\ debug' = (op[t].c # Nil /\ debug))]_vars
=============================================================================
